"""Independent SOME/IP and SOME/IP-SD codec (reference model + wire observer).

Written from the layout given in the property statements; shares no code with
``someip.header`` and never imports it.  Manual big-endian byte arithmetic, plain
tuples / dicts as values.

SOME/IP message, 16 byte header:
    service(2) method(2) length(4) client(2) session(2) protover(1) ifver(1) type(1) code(1)
    payload(length - 8)
SD payload:
    flags(1) reserved(3) entries_length(4) entries(16 each) options_length(4) options
SD entry:
    type(1) index1(1) index2(1) counts(1: hi nibble run 1, lo nibble run 2)
    service(2) instance(2) major(1) ttl(3)
    find/offer: minor(4)      eventgroup: reserved(12 bit) counter(4 bit) eventgroup(16 bit)
SD option:
    length(2) type(1) then `length` bytes starting with one reserved byte
"""
from __future__ import annotations

MESSAGE_TYPES = (0x00, 0x01, 0x02, 0x40, 0x41, 0x42, 0x80, 0x81, 0xC0, 0xC1)
RETURN_CODES = tuple(range(0, 11))
ENTRY_TYPES = {0: "find", 1: "offer", 6: "subscribe", 7: "suback"}
ENTRY_CODES = {v: k for k, v in ENTRY_TYPES.items()}
EVENTGROUP_TYPES = (6, 7)

OPT_CONFIG = 0x01
OPT_LOADBAL = 0x02
OPT_V4 = {0x04: "v4endpoint", 0x14: "v4multicast", 0x24: "v4sdendpoint"}
OPT_V6 = {0x06: "v6endpoint", 0x16: "v6multicast", 0x26: "v6sdendpoint"}
OPT_CODES = {v: k for k, v in list(OPT_V4.items()) + list(OPT_V6.items())}

SD_SERVICE = 0xFFFF
SD_METHOD = 0x8100


class RefError(Exception):
    """the reference decoder rejects the bytes; .reason is a short class label"""

    def __init__(self, reason, detail=""):
        super().__init__(f"{reason}: {detail}")
        self.reason = reason


def be(b: bytes) -> int:
    v = 0
    for x in b:
        v = (v << 8) | x
    return v


def tobe(v: int, n: int) -> bytes:
    if v < 0 or v >> (8 * n):
        raise ValueError(f"{v} does not fit {n} bytes")
    return bytes((v >> (8 * (n - 1 - i))) & 0xFF for i in range(n))


# -- SOME/IP -----------------------------------------------------------------------

def enc_someip(service, method, client, session, iface, mtype, code, payload, protover=1):
    return (
        tobe(service, 2) + tobe(method, 2) + tobe(len(payload) + 8, 4) + tobe(client, 2)
        + tobe(session, 2) + tobe(protover, 1) + tobe(iface, 1) + tobe(mtype, 1)
        + tobe(code, 1) + bytes(payload)
    )


def dec_someip(buf: bytes):
    """-> (dict, rest) or RefError(reason in short/version/type/code/length/truncated)"""
    if len(buf) < 16:
        raise RefError("short", f"{len(buf)} bytes")
    m = dict(
        service=be(buf[0:2]), method=be(buf[2:4]), length=be(buf[4:8]), client=be(buf[8:10]),
        session=be(buf[10:12]), protover=buf[12], iface=buf[13], mtype=buf[14], code=buf[15],
    )
    if m["protover"] != 1:
        raise RefError("version")
    if m["mtype"] not in MESSAGE_TYPES:
        raise RefError("type")
    if m["code"] not in RETURN_CODES:
        raise RefError("code")
    if m["length"] < 8:
        raise RefError("length")
    end = 16 + m["length"] - 8
    if len(buf) < end:
        raise RefError("truncated")
    m["payload"] = bytes(buf[16:end])
    return m, bytes(buf[end:])


def dec_someip_all(buf: bytes):
    """all messages of a datagram: ([dict...], error reason or None, undecoded tail)"""
    out = []
    while buf:
        try:
            m, buf = dec_someip(buf)
        except RefError as e:
            return out, e.reason, buf
        out.append(m)
    return out, None, b""


def is_sd_header(m) -> bool:
    return (m["service"] == SD_SERVICE and m["method"] == SD_METHOD and m["iface"] == 1
            and m["mtype"] == 2 and m["code"] == 0)


# -- SD options -----------------------------------------------------------------------
# option values:
#   ("config", ((key, value|None), ...))
#   ("loadbal", priority, weight)
#   ("v4endpoint"|..., address bytes, l4proto int, port)
#   ("unknown", type, payload bytes)   payload includes the reserved byte


def enc_option(o) -> bytes:
    kind = o[0]
    if kind == "config":
        body = b"\x00"
        for k, v in o[1]:
            s = k.encode("ascii") if v is None else k.encode("ascii") + b"=" + v.encode("ascii")
            body += tobe(len(s), 1) + s
        body += b"\x00"
        typ = OPT_CONFIG
    elif kind == "loadbal":
        body = b"\x00" + tobe(o[1], 2) + tobe(o[2], 2)
        typ = OPT_LOADBAL
    elif kind == "unknown":
        body = bytes(o[2])
        typ = o[1]
    else:
        typ = OPT_CODES[kind]
        addr = bytes(o[1])
        assert len(addr) == (4 if typ in OPT_V4 else 16)
        body = b"\x00" + addr + b"\x00" + tobe(o[2], 1) + tobe(o[3], 2)
    return tobe(len(body), 2) + tobe(typ, 1) + body


def dec_option(buf: bytes):
    if len(buf) < 3:
        raise RefError("opt-short")
    ln, typ = be(buf[0:2]), buf[2]
    body, rest = buf[3:3 + ln], buf[3 + ln:]
    if len(body) < ln:
        raise RefError("opt-truncated")
    if typ == OPT_CONFIG:
        if ln < 2:
            raise RefError("cfg-short")
        items = []
        p = 1
        while True:
            if p >= len(body):
                raise RefError("cfg-unterminated")
            n = body[p]
            p += 1
            if n == 0:
                break
            if p + n > len(body):
                raise RefError("cfg-string-too-long")
            s = body[p:p + n]
            p += n
            if any(c >= 0x80 for c in s):
                raise RefError("cfg-nonascii")
            i = s.find(b"=")
            if i < 0:
                items.append((s.decode("ascii"), None))
            else:
                items.append((s[:i].decode("ascii"), s[i + 1:].decode("ascii")))
        return ("config", tuple(items)), rest
    if typ == OPT_LOADBAL:
        if ln != 5:
            raise RefError("lb-length")
        return ("loadbal", be(body[1:3]), be(body[3:5])), rest
    if typ in OPT_V4:
        if ln != 9:
            raise RefError("ip-length")
        return (OPT_V4[typ], bytes(body[1:5]), body[6], be(body[7:9])), rest
    if typ in OPT_V6:
        if ln != 21:
            raise RefError("ip-length")
        return (OPT_V6[typ], bytes(body[1:17]), body[18], be(body[19:21])), rest
    return ("unknown", typ, bytes(body)), rest


# -- SD entries -----------------------------------------------------------------------
# raw entry: dict(type, i1, i2, n1, n2, service, instance, major, ttl, last)  (last = 32 bit)


def enc_entry(e) -> bytes:
    if not (0 <= e["n1"] <= 15 and 0 <= e["n2"] <= 15):
        raise ValueError("run count does not fit 4 bits")
    return (
        tobe(e["type"], 1) + tobe(e["i1"], 1) + tobe(e["i2"], 1)
        + tobe((e["n1"] << 4) | e["n2"], 1) + tobe(e["service"], 2) + tobe(e["instance"], 2)
        + tobe(e["major"], 1) + tobe(e["ttl"], 3) + tobe(e["last"], 4)
    )


def dec_entry(buf: bytes, num_options=None):
    if len(buf) < 16:
        raise RefError("entry-short")
    e = dict(
        type=buf[0], i1=buf[1], i2=buf[2], n1=buf[3] >> 4, n2=buf[3] & 15,
        service=be(buf[4:6]), instance=be(buf[6:8]), major=buf[8], ttl=be(buf[9:12]),
        last=be(buf[12:16]),
    )
    if e["type"] not in ENTRY_TYPES:
        raise RefError("entry-type")
    if num_options is not None:
        if e["i1"] + e["n1"] > num_options or e["i2"] + e["n2"] > num_options:
            raise RefError("entry-index")
    if e["type"] in EVENTGROUP_TYPES and (e["last"] >> 20):
        raise RefError("entry-reserved")
    return e, bytes(buf[16:])


def entry_minor(e):
    return e["last"]


def entry_counter(e):
    return (e["last"] >> 16) & 0xF


def entry_eventgroup(e):
    return e["last"] & 0xFFFF


# -- SD message -----------------------------------------------------------------------


def enc_sd(flags: int, raw_entries, options, reserved=b"\x00\x00\x00", tail=b"") -> bytes:
    eb = b"".join(enc_entry(e) for e in raw_entries)
    ob = b"".join(enc_option(o) for o in options)
    return tobe(flags, 1) + bytes(reserved) + tobe(len(eb), 4) + eb + tobe(len(ob), 4) + ob + tail


def dec_sd(buf: bytes):
    """-> (dict(flags, reboot, unicast, unknown_flags, entries(raw), options), rest)"""
    if len(buf) < 12:
        raise RefError("sd-short")
    flags = buf[0]
    elen = be(buf[4:8])
    if len(buf) < 8 + elen + 4:
        raise RefError("sd-entries-length")
    ebuf = buf[8:8 + elen]
    p = 8 + elen
    olen = be(buf[p:p + 4])
    p += 4
    if len(buf) < p + olen:
        raise RefError("sd-options-length")
    obuf = buf[p:p + olen]
    rest = bytes(buf[p + olen:])
    options = []
    while obuf:
        o, obuf = dec_option(obuf)
        options.append(o)
    entries = []
    while ebuf:
        e, ebuf = dec_entry(ebuf, len(options))
        entries.append(e)
    return dict(
        flags=flags, reboot=bool(flags & 0x80), unicast=bool(flags & 0x40),
        unknown_flags=flags & 0x3F, entries=entries, options=tuple(options),
    ), rest


def resolve(sd):
    """entries with their own option runs: list of (raw entry, run1 tuple, run2 tuple)"""
    out = []
    for e in sd["entries"]:
        r1 = tuple(sd["options"][e["i1"]:e["i1"] + e["n1"]])
        r2 = tuple(sd["options"][e["i2"]:e["i2"] + e["n2"]])
        out.append((e, r1, r2))
    return out


def dec_sd_datagram(data: bytes):
    """decode a datagram that is expected to hold SD messages only.

    -> list of dict(session, reboot, unicast, entries=[(kind, service, instance, major, ttl,
       last, run1, run2)])
    """
    msgs, err, _ = dec_someip_all(data)
    if err:
        raise RefError("datagram-" + err)
    out = []
    for m in msgs:
        if not is_sd_header(m):
            raise RefError("not-sd")
        sd, rest = dec_sd(m["payload"])
        ents = []
        for e, r1, r2 in resolve(sd):
            ents.append((ENTRY_TYPES[e["type"]], e["service"], e["instance"], e["major"],
                         e["ttl"], e["last"], r1, r2))
        out.append(dict(session=m["session"], client=m["client"], reboot=sd["reboot"],
                        unicast=sd["unicast"], unknown_flags=sd["unknown_flags"],
                        entries=ents, rest=rest))
    return out


# -- convenience builders used by the harnesses (wire side of a simulated peer) -----------


def sd_message(session, entries, reboot=True, unicast=True, unknown_flags=0, client=0):
    """entries: list of (kind, service, instance, major, ttl, last, run1, run2); options are
    laid out naively (no sharing): run1 then run2 per entry."""
    options = []
    raw = []
    for kind, service, instance, major, ttl, last, r1, r2 in entries:
        i1 = len(options) if r1 else 0
        options.extend(r1)
        i2 = len(options) if r2 else 0
        options.extend(r2)
        raw.append(dict(type=ENTRY_CODES[kind], i1=i1, i2=i2, n1=len(r1), n2=len(r2),
                        service=service, instance=instance, major=major, ttl=ttl, last=last))
    flags = (0x80 if reboot else 0) | (0x40 if unicast else 0) | unknown_flags
    payload = enc_sd(flags, raw, options)
    return enc_someip(SD_SERVICE, SD_METHOD, client, session, 1, 2, 0, payload)


def v4(addr: str, port: int, proto=17, kind="v4endpoint"):
    return (kind, bytes(int(x) for x in addr.split(".")), proto, port)


def v6(addr_bytes: bytes, port: int, proto=17, kind="v6endpoint"):
    return (kind, bytes(addr_bytes), proto, port)
