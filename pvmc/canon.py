"""Canonical state vector of a live object graph (real library objects + harness objects).

The result is a nested tuple of primitives; two worlds get the same key only if every
reachable piece of state -- data, timers (relative to now), ready queue, tasks with
their frame positions and locals, futures and their callbacks, the reference model
and the monitors -- is equal.  Nothing is dropped silently: an object of a type the
walker does not know raises HarnessError.

Dropped on purpose (argued in DESIGN.md 4.2): loggers, locks, the loop object itself,
contextvars contexts, absolute virtual time, cached_property values of frozen
dataclasses.
"""
from __future__ import annotations

import asyncio
import collections
import dataclasses
import enum
import functools
import hashlib
import ipaddress
import logging
import types
import _thread

from .vloop import HarnessError, VLoop

_LockType = (type(_thread.allocate_lock()), type(_thread.RLock()))
_PRIMS = (type(None), bool, int, float, str, bytes)


class Canon:
    abstract_sessions = True
    abstract_incoming = False

    def __init__(self, loop: VLoop):
        self.loop = loop
        self.now = loop.time()
        self.memo = {}  # id(obj) -> small int, first-visit order
        self.keep = []  # keep visited objects alive so ids are not reused

    def _ref(self, obj):
        i = self.memo.get(id(obj))
        if i is not None:
            return i, False
        i = len(self.memo)
        self.memo[id(obj)] = i
        self.keep.append(obj)
        return i, True

    # ------------------------------------------------------------------------------
    def c(self, o):  # noqa: C901
        if isinstance(o, enum.Enum):
            return ("E", type(o).__name__, o.value)
        if isinstance(o, _PRIMS):
            return o
        if isinstance(o, tuple):
            return ("T",) + tuple(self.c(x) for x in o)
        if isinstance(o, (ipaddress.IPv4Address, ipaddress.IPv6Address)):
            return ("IP", str(o))
        if isinstance(o, frozenset):
            return ("FS",) + tuple(sorted((self.c(x) for x in o), key=repr))
        if isinstance(o, (bytearray, memoryview)):
            return ("BA", bytes(o))
        if isinstance(o, VLoop):
            return ("LOOP",)
        if isinstance(o, logging.Logger):
            return ("LOG",)
        if isinstance(o, _LockType):
            return ("LOCK",)
        if isinstance(o, asyncio.Task):
            return self._task(o)
        if isinstance(o, asyncio.Future):
            return self._future(o)
        if isinstance(o, asyncio.TimerHandle):
            if o._cancelled:
                return ("THX",)
            return ("TH", o._when - self.now, self._callback(o._callback), self.c(tuple(o._args or ())))
        if isinstance(o, asyncio.Handle):
            if o._cancelled:
                return ("HX",)
            return ("H", self._callback(o._callback), self.c(tuple(o._args or ())))
        if isinstance(o, (types.FunctionType, types.MethodType, types.BuiltinFunctionType,
                          functools.partial)) or type(o).__name__ == "TaskStepMethWrapper":
            return self._callback(o)
        if isinstance(o, type):
            return ("CLS", o.__module__, o.__qualname__)
        if isinstance(o, types.ModuleType):
            return ("MOD", o.__name__)
        if isinstance(o, types.CoroutineType):
            return self._coro(o)
        if type(o).__name__ == "_SessionStorage" and self.abstract_sessions:
            # abstraction A1 (DESIGN 4.2): an outgoing counter far below the wrap influences the
            # future only through monotone increase; the incoming table is kept exactly
            i, new = self._ref(o)
            if not new:
                return ("R", i)
            # both tables are only ever accessed by key, never iterated: sorted, defaults dropped
            outg = tuple(sorted(((self.c(k), v[0], v[1] if v[1] >= 0x7FFF else "lt-half")
                                 for k, v in o.outgoing.items() if v != (True, 1)), key=repr))
            if self.abstract_incoming:
                # harness-specific (C05/C06): the peer only ever sends 'previous id + 1' or restarts
                # at 1, so the stored id influences nothing
                inc = tuple(sorted(((self.c(k), v[0]) for k, v in o.incoming.items()), key=repr))
            else:
                inc = tuple(sorted(((self.c(k), self.c(v)) for k, v in o.incoming.items()), key=repr))
            return ("SS", i, inc, outg)
        if hasattr(o, "_canon_"):
            i, new = self._ref(o)
            if not new:
                return ("R", i)
            return ("X", type(o).__name__, i, self.c(o._canon_(self.now)))
        if dataclasses.is_dataclass(o) and not isinstance(o, type):
            p = type(o).__dataclass_params__
            if p.frozen:
                return ("D", type(o).__name__) + tuple(
                    self.c(getattr(o, f.name)) for f in dataclasses.fields(o))
            i, new = self._ref(o)
            if not new:
                return ("R", i)
            return ("DM", type(o).__name__, i) + tuple(
                (f.name, self.c(getattr(o, f.name))) for f in dataclasses.fields(o))
        if isinstance(o, dict):
            i, new = self._ref(o)
            if not new:
                return ("R", i)
            # insertion order is kept (the library iterates its dicts), and so are the empty
            # default values a defaultdict leaves behind: over-fine, but sound by construction
            return ("M", i) + tuple((self.c(k), self.c(v)) for k, v in o.items())
        if isinstance(o, (list, collections.deque)):
            i, new = self._ref(o)
            if not new:
                return ("R", i)
            return ("L", i) + tuple(self.c(x) for x in o)
        if isinstance(o, set):
            i, new = self._ref(o)
            if not new:
                return ("R", i)
            return ("S", i) + tuple(sorted((self.c(x) for x in o), key=repr))
        if type(o).__name__ in ("dict_keys", "dict_values", "dict_items"):
            # a live view; the mapping itself is reachable (and canonicalised) through its owner
            return ("DV", type(o).__name__) + tuple(self.c(x) for x in o)
        if type(o).__name__ in ("Context", "FutureIter", "ContextVar"):
            return ("CTX",)
        if isinstance(o, BaseException):
            return ("EXC", type(o).__name__, str(o))
        if hasattr(o, "__dict__"):
            i, new = self._ref(o)
            if not new:
                return ("R", i)
            skip = getattr(o, "_canon_skip_", ())
            return ("O", type(o).__name__, i) + tuple(
                (k, self.c(v)) for k, v in o.__dict__.items() if k not in skip)
        if hasattr(o, "__slots__"):
            i, new = self._ref(o)
            if not new:
                return ("R", i)
            return ("O", type(o).__name__, i) + tuple(
                (k, self.c(getattr(o, k))) for k in o.__slots__ if hasattr(o, k))
        raise HarnessError(f"canon: cannot canonicalise {type(o)!r}")

    # ------------------------------------------------------------------------------
    def _callback(self, cb):
        if isinstance(cb, types.MethodType):
            return ("BM", cb.__func__.__qualname__, self.c(cb.__self__))
        if isinstance(cb, types.FunctionType):
            cells = ()
            if cb.__closure__:
                cells = tuple(
                    (n, self._cell(cell)) for n, cell in zip(cb.__code__.co_freevars, cb.__closure__))
            return ("F", cb.__module__, cb.__qualname__, cells)
        if isinstance(cb, functools.partial):
            return ("P", self._callback(cb.func), self.c(tuple(cb.args)),
                    tuple((k, self.c(v)) for k, v in sorted((cb.keywords or {}).items())))
        if isinstance(cb, types.BuiltinFunctionType):
            s = getattr(cb, "__self__", None)
            if s is None or isinstance(s, types.ModuleType):
                return ("BF", cb.__name__)
            return ("BB", cb.__name__, self.c(s))
        if type(cb).__name__ == "TaskStepMethWrapper":
            return ("STEP", self.c(cb.__self__))
        if callable(cb) and hasattr(cb, "__dict__"):
            return ("CO", self.c(cb))
        raise HarnessError(f"canon: cannot canonicalise callback {cb!r}")

    def _cell(self, cell):
        try:
            return self.c(cell.cell_contents)
        except ValueError:
            return ("EMPTYCELL",)

    def _future(self, f):
        i, new = self._ref(f)
        if not new:
            return ("R", i)
        if f.cancelled():
            st = ("cancelled",)
        elif f.done():
            exc = f._exception
            st = ("exc", type(exc).__name__) if exc is not None else ("res", self.c(f._result))
        else:
            st = ("pending",)
        cbs = tuple(self._callback(cb) for cb, _ctx in (f._callbacks or ()))
        extra = ()
        ch = getattr(f, "_children", None)
        if ch is not None:
            extra = tuple(self.c(x) for x in ch)
        return ("FUT", type(f).__name__, i, st, cbs, extra)

    def _coro(self, co):
        frames = []
        c = co
        while isinstance(c, types.CoroutineType):
            fr = c.cr_frame
            if fr is None:
                frames.append((c.cr_code.co_qualname, "finished"))
                break
            loc = tuple((k, self.c(v)) for k, v in fr.f_locals.items())
            frames.append((c.cr_code.co_qualname, fr.f_lasti, loc))
            c = c.cr_await
        return ("CORO", tuple(frames))

    def _task(self, t):
        i, new = self._ref(t)
        if not new:
            return ("R", i)
        if t.cancelled():
            st = ("cancelled",)
        elif t.done():
            exc = t._exception
            st = ("exc", type(exc).__name__) if exc is not None else ("res", self.c(t._result))
            return ("TASK", i, st)
        else:
            st = ("pending", bool(t._must_cancel), t.cancelling())
        cbs = tuple(self._callback(cb) for cb, _ctx in (t._callbacks or ()))
        if t.done():
            return ("TASK", i, st, cbs)
        return ("TASK", i, st, cbs, self._coro(t.get_coro()), self.c(t._fut_waiter))

    # ------------------------------------------------------------------------------
    def snapshot(self, roots):
        parts = [("ROOT", self.c(r)) for r in roots]
        parts.append(("READY",) + tuple(self.c(h) for h in self.loop._ready if not h._cancelled))
        timers = [h for h in self.loop._scheduled if not h._cancelled]
        # abstraction A3: the pop order of timers with *equal* deadlines depends on the heap layout
        # (history of cancelled entries); they are ordered canonically instead.  Argued sound
        # because simultaneous timers of the library commute up to the order of callbacks for
        # different keys, which no oracle observes; the dedupe validation would flag otherwise.
        def tkey(h):
            cb = h._callback
            name = getattr(cb, "__qualname__", None) or type(cb).__name__
            args = tuple(a if isinstance(a, (_PRIMS, tuple)) else (repr(a) if dataclasses.is_dataclass(a) else type(a).__name__)
                         for a in (h._args or ()))
            return (h._when, name, repr(args))
        timers = sorted(timers, key=tkey)
        parts.append(("TIMERS",) + tuple(self.c(h) for h in timers))
        tasks = [t for t in asyncio.all_tasks(self.loop) if id(t) not in self.memo]
        if tasks:
            # tasks reachable from nowhere else (fire-and-forget): order by their own canon
            forms = []
            for t in tasks:
                sub = Canon(self.loop)
                forms.append((repr(sub.c(t)), t))
            forms.sort(key=lambda x: x[0])
            parts.append(("ORPHANS",) + tuple(self.c(t) for _, t in forms))
        return tuple(parts)


def snapshot(loop: VLoop, roots):
    return Canon(loop).snapshot(roots)


def roots_key(loop: VLoop, roots) -> bytes:
    """state of the given objects only (no ready queue / timers): for before/after comparisons made
    in the middle of an iteration"""
    c = Canon(loop)
    return key_of(tuple(c.c(r) for r in roots))


def key_of(snap) -> bytes:
    return hashlib.blake2b(repr(snap).encode(), digest_size=16).digest()


def state_key(loop: VLoop, roots) -> bytes:
    return key_of(snapshot(loop, roots))
