"""Virtual asyncio loop owned by the explorer.

VLoop is a stock ``asyncio.BaseEventLoop`` whose clock is virtual and whose
``_ready`` / ``_scheduled`` queues are popped by the explorer instead of
``run_forever``.  One call of :meth:`VLoop.iterate` reproduces the order of one
``BaseEventLoop._run_once`` of a selector loop::

    carried-over call_soon handles (already in _ready)
    + PRE  callbacks (what the selector reports: datagram deliveries ...)
    + timers with when < now + clock_resolution
    + POST callbacks (an application timer with the same deadline armed later)
    run exactly the handles present now; handles they add wait for the next iteration

Nothing in here sleeps, selects, or starts a thread.
"""
from __future__ import annotations

import asyncio
import heapq
import ipaddress
import socket
from asyncio import events

RESOLUTION = 2.0 ** -20
EPS = 2.0 ** -10


class HarnessError(Exception):
    """the harness (not the code under test) misbehaved: exit code 2"""


class VLoop(asyncio.BaseEventLoop):
    def __init__(self, resolution: float = RESOLUTION):
        super().__init__()
        self._vtime = 0.0
        self._clock_resolution = resolution
        self.iteration = 0
        self.exc_log = []  # entries of call_exception_handler
        self.timer_instants = set()  # every `when` that ever entered _scheduled
        self.gai_hold = 0  # number of upcoming getaddrinfo answers to hold back
        self.gai_pending = []  # held-back (future, result)
        self.set_exception_handler(self._on_exception)
        self.created = []  # every task created on this loop (strong refs, for the unretrieved-exception check)
        self._installed = False

    # -- clock ---------------------------------------------------------------------
    def time(self) -> float:
        return self._vtime

    def advance_to(self, t: float) -> None:
        if t < self._vtime:
            raise HarnessError(f"clock moved backwards {self._vtime} -> {t}")
        self._vtime = t

    def advance(self, dt: float) -> None:
        self.advance_to(self._vtime + dt)

    # -- selector-less plumbing -------------------------------------------------------
    def _process_events(self, event_list):  # pragma: no cover
        pass

    def _write_to_self(self):
        pass

    def _on_exception(self, loop, context):
        exc = context.get("exception")
        self.exc_log.append(
            (self._vtime, context.get("message"), type(exc).__name__ if exc else None,
             str(exc) if exc else None)
        )

    def create_task(self, coro, **kw):
        t = super().create_task(coro, **kw)
        self.created.append(t)
        return t

    def call_at(self, when, callback, *args, context=None):
        h = super().call_at(when, callback, *args, context=context)
        self.timer_instants.add(when)
        return h

    async def getaddrinfo(self, host, port, *, family=0, type=0, proto=0, flags=0):
        """numeric, in-process resolution (the library only resolves numeric hosts)"""
        ip = ipaddress.ip_address(host.split("%", 1)[0])
        if isinstance(ip, ipaddress.IPv4Address):
            if family not in (0, socket.AF_INET):
                raise socket.gaierror(socket.EAI_ADDRFAMILY, "family mismatch")
            res = [(socket.AF_INET, type or socket.SOCK_DGRAM, proto, "", (str(ip), port))]
        else:
            if family not in (0, socket.AF_INET6):
                raise socket.gaierror(socket.EAI_ADDRFAMILY, "family mismatch")
            res = [(socket.AF_INET6, type or socket.SOCK_DGRAM, proto, "",
                    (str(ip), port, 0, 0))]
        fut = self.create_future()
        if self.gai_hold > 0:
            self.gai_hold -= 1
            self.gai_pending.append((fut, res))
            return await fut
        # like the executor-backed original the answer never arrives in the iteration of the call:
        # the caller is suspended for (at least) one loop iteration
        self.call_soon(self._gai_done, fut, res)
        return await fut

    @staticmethod
    def _gai_done(fut, res):
        if not fut.done():
            fut.set_result(res)

    def release_gai(self, index: int = 0) -> None:
        fut, res = self.gai_pending.pop(index)
        if not fut.done():
            fut.set_result(res)

    # -- install / uninstall as the running loop ---------------------------------------
    def install(self):
        if events._get_running_loop() is not None:
            raise HarnessError("another loop is already running")
        events._set_running_loop(self)
        self._installed = True
        return self

    def uninstall(self):
        if self._installed:
            events._set_running_loop(None)
            self._installed = False

    def __enter__(self):
        return self.install()

    def __exit__(self, *exc):
        self.dispose()

    def dispose(self):
        """drop everything that is still pending without running it"""
        try:
            for t in self.created:
                # silence "Task was destroyed but it is pending" / late "never retrieved" reports
                t._log_destroy_pending = False
                if t.done():
                    t._log_traceback = False
                else:
                    # finalise the coroutine now, while this loop is still the running one: otherwise
                    # its finally-blocks run when the garbage collector gets to it - inside the *next*
                    # execution, whose loop they would then use
                    try:
                        t.get_coro().close()
                    except BaseException:  # noqa: BLE001
                        pass
            self.created = []
            self._ready.clear()
            self._scheduled.clear()
        finally:
            self.uninstall()
            if not self.is_closed():
                # BaseEventLoop.close() wants no running loop and touches the executor only
                self._closed = True

    # -- stepping ------------------------------------------------------------------
    def next_timer(self):
        """deadline of the earliest non-cancelled timer, or None"""
        while self._scheduled and self._scheduled[0]._cancelled:
            h = heapq.heappop(self._scheduled)
            h._scheduled = False
            self._timer_cancelled_count -= 1
        if self._scheduled:
            return self._scheduled[0]._when
        return None

    def timers_due(self) -> bool:
        w = self.next_timer()
        return w is not None and w < self._vtime + self._clock_resolution

    def pending_timers(self):
        return sorted(h._when for h in self._scheduled if not h._cancelled)

    def _move_due_timers(self):
        end_time = self._vtime + self._clock_resolution
        while self._scheduled:
            handle = self._scheduled[0]
            if handle._when >= end_time:
                break
            handle = heapq.heappop(self._scheduled)
            handle._scheduled = False
            if handle._cancelled:
                self._timer_cancelled_count -= 1
                continue
            self._ready.append(handle)

    def iterate(self, pre=(), post=()):
        """exactly one loop iteration; pre/post are zero-argument callables"""
        if events._get_running_loop() is not self:
            raise HarnessError("VLoop is not the running loop of this process (forked after install?)")
        self.iteration += 1
        for cb in pre:
            self._ready.append(events.Handle(cb, (), self))
        self._move_due_timers()
        for cb in post:
            self._ready.append(events.Handle(cb, (), self))
        ntodo = len(self._ready)
        for _ in range(ntodo):
            handle = self._ready.popleft()
            if handle._cancelled:
                continue
            handle._run()
        handle = None

    def idle(self) -> bool:
        if any(not h._cancelled for h in self._ready):
            return False
        return not self.timers_due()

    def settle(self, pre=(), post=(), budget: int = 10000):
        """iterate until idle (nothing ready, no timer due at the current instant)"""
        n = 0
        if pre or post:
            self.iterate(pre, post)
            n += 1
        while not self.idle():
            self.iterate()
            n += 1
            if n > budget:
                raise HarnessError("settle budget exhausted (livelock at one instant?)")
        return n

    def run_until(self, t_end: float, budget: int = 1000000):
        """settle, then jump from timer to timer until the clock reaches t_end"""
        n = self.settle()
        while True:
            w = self.next_timer()
            if w is None or w > t_end:
                break
            if w > self._vtime:
                self.advance_to(w)
            n += self.settle()
            if n > budget:
                raise HarnessError("run_until budget exhausted")
        if t_end > self._vtime:
            self.advance_to(t_end)
        n += self.settle()
        return n

    def collect_exceptions(self):
        """loop exception-handler entries plus 'exception was never retrieved' candidates, found
        deterministically (no reliance on GC timing): finished tasks whose exception nobody read"""
        out = list(self.exc_log)
        for t in self.created:
            if t.done() and not t.cancelled() and t._log_traceback:
                exc = t._exception
                out.append((self._vtime, "Task exception was never retrieved", type(exc).__name__, str(exc)))
        return out


class FakeTransport:
    """records every sendto with virtual time and loop iteration"""

    _canon_skip_ = ("sent", "sink")

    def __init__(self, loop: VLoop, sockname=("192.0.2.1", 30490), sink=None):
        self.loop = loop
        self.sockname = sockname
        self.sent = []  # (time, iteration, bytes, addr)
        self.sink = sink  # optional callable(data, addr, transport)
        self.closed = False
        self.mute = False

    def sendto(self, data, addr=None):
        rec = (self.loop.time(), self.loop.iteration, bytes(data), addr)
        self.sent.append(rec)
        if self.sink is not None and not self.mute:
            self.sink(bytes(data), addr, self)

    def get_extra_info(self, key, default=None):
        if key == "sockname":
            return self.sockname
        return default

    def close(self):
        self.closed = True

    def is_closing(self):
        return self.closed

    def __bool__(self):
        return True
