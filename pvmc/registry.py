"""Per-property metadata for MANIFEST.json (tools/mkmanifest.py).  A property only appears in
MANIFEST.checks when pvmc/props/<id>.py exists."""

ENGINES = [
    dict(name="E1 replay-BFS", path="pvmc/explore.py",
         serves_properties=["C05", "C06", "C09", "C14", "C15", "C17", "C18"],
         kind_free_text="explicit-state breadth-first search over event histories; every transition replays the "
                        "history on fresh real objects on a virtual asyncio loop; canonical state hashing"),
    dict(name="E2 deviation-bounded", path="pvmc/explore.py",
         serves_properties=["C04", "C10", "C12", "C13"],
         kind_free_text="stateless exploration of all schedules with at most k disturbances placed at the timer "
                        "instants discovered from the run itself (k = 0, 1, 2 iterated)"),
    dict(name="E3 bounded-exhaustive inputs", path="pvmc/props",
         serves_properties=["C01", "C02", "C03", "C11", "C16", "C19", "C20"],
         kind_free_text="complete enumeration of a finite input alphabet / mutation neighbourhood against an "
                        "independent reference codec or decision table"),
    dict(name="E4 live-object BFS", path="pvmc/explore.py",
         serves_properties=["C02", "C07", "C08"],
         kind_free_text="explicit-state search to closure where the real object's state vector is saved and "
                        "restored between transitions"),
]

NOTES = (
    "All checks execute the real code of ${VERIF_REPO:-/repo}/src on a hand-stepped virtual asyncio loop "
    "(pvmc/vloop.py); no TLA+/Promela model is used, so every explored transition is an execution of the "
    "implementation. Genuine defects repaired by unguarded 'fix:' commits and known findings are listed in "
    "/verif/KNOWN_FINDINGS.txt. See DESIGN.md."
)

NOT_YET = {}

_TB = ("trusted: CPython 3.12 asyncio Task/Future semantics, pvmc.vloop reproducing selector-loop callback "
       "order (checked by ./check --selftest against a real SelectorEventLoop), the independent codec "
       "pvmc/refcodec.py")

CHECKS = {
    "C07": dict(
        engine="E4 live-object BFS", level="model_checking", design_ref="5/C07",
        technique="explicit-state BFS to closure over the real session table (save/restore), reference rule oracle",
        text="The reachable state space of the real incoming-session table over the boundary alphabet "
             "(2 senders x 2 channels x 2 flag values x 6 session ids) is explored to closure; every transition "
             "delivers a real SD datagram through datagram_received and compares the detection and its three-way "
             "fan-out with the one-line rule of the statement. Exhaustive inside the alphabet, nothing beyond it.",
        note=_TB + "; session id 0 is outside the alphabet",
    ),
}
