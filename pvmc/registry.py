"""Per-property metadata for MANIFEST.json (tools/mkmanifest.py).  A property only appears in
MANIFEST.checks when pvmc/props/<id>.py exists."""

ENGINES = [
    dict(name="E1 replay-BFS", path="pvmc/explore.py",
         serves_properties=["C05", "C06", "C09", "C14", "C15", "C17", "C18"],
         kind_free_text="explicit-state breadth-first search over event histories; every transition replays the "
                        "history on fresh real objects on a virtual asyncio loop; canonical state hashing"),
    dict(name="E2 deviation-bounded", path="pvmc/explore.py",
         serves_properties=["C04", "C10", "C12", "C13"],
         kind_free_text="stateless exploration of all schedules with at most k disturbances placed at the timer "
                        "instants discovered from the run itself (k = 0, 1, 2 iterated)"),
    dict(name="E3 bounded-exhaustive inputs", path="pvmc/props",
         serves_properties=["C01", "C02", "C03", "C11", "C16", "C19", "C20"],
         kind_free_text="complete enumeration of a finite input alphabet / mutation neighbourhood against an "
                        "independent reference codec or decision table"),
    dict(name="E4 live-object BFS", path="pvmc/explore.py",
         serves_properties=["C02", "C07", "C08"],
         kind_free_text="explicit-state search to closure where the real object's state vector is saved and "
                        "restored between transitions"),
]

NOTES = (
    "All checks execute the real code of ${VERIF_REPO:-/repo}/src on a hand-stepped virtual asyncio loop "
    "(pvmc/vloop.py); no TLA+/Promela model is used, so every explored transition is an execution of the "
    "implementation. Genuine defects repaired by unguarded 'fix:' commits and known findings are listed in "
    "/verif/KNOWN_FINDINGS.txt. See DESIGN.md."
)

NOT_YET = {}

_TB = ("trusted: CPython 3.12 asyncio Task/Future semantics, pvmc.vloop reproducing selector-loop callback "
       "order (checked by ./check --selftest against a real SelectorEventLoop), the independent codec "
       "pvmc/refcodec.py")

CHECKS = {
    "C07": dict(
        engine="E4 live-object BFS", level="model_checking", design_ref="5/C07",
        technique="explicit-state BFS to closure over the real session table (save/restore), reference rule oracle",
        text="The reachable state space of the real incoming-session table over the boundary alphabet "
             "(2 senders x 2 channels x 2 flag values x 6 session ids) is explored to closure; every transition "
             "delivers a real SD datagram through datagram_received and compares the detection and its three-way "
             "fan-out with the one-line rule of the statement. Exhaustive inside the alphabet, nothing beyond it.",
        note=_TB + "; session id 0 is outside the alphabet",
    ),
    "C01": dict(
        engine="E3 bounded-exhaustive inputs", level="exploration", design_ref="5/C01",
        technique="bounded-exhaustive enumeration of field/length/suffix boundaries and all <=3-message datagrams against an independent encoder/decoder",
        text="Complete enumeration of the boundary products of all header fields, all message types x return codes x "
             "boundary payload lengths (to 64 KiB + 8) x suffixes, and every datagram of 0..3 messages from a menu of 6 "
             "with 4 tails through the real datagram_received; build() is compared byte-for-byte with an independent "
             "encoder. Exhaustive over the stated finite alphabet; values between boundaries are not covered.",
        note=_TB,
    ),
    "C08": dict(
        engine="E4 live-object BFS", level="model_checking", design_ref="5/C08",
        technique="exhaustive walk of the complete 2x65535-state cycle of the real outgoing table with probe-and-rollback at every state; BFS over all send interleavings of 3 destinations around the wrap",
        text="The complete 2 x 65535 cycle of one destination is walked with real send_sd calls; in every one of those "
             "states a multicast send and an empty send are executed and rolled back (non-interference, empty send "
             "consumes nothing); the joint state space of three destinations x <=6 sends each around the wrap is explored "
             "in every order; the notification path is run across the wrap. Ids and flags are decoded from the bytes "
             "given to the transport by an independent decoder.",
        note=_TB + "; single-threaded (the lock is uncontended)",
    ),
    "C16": dict(
        engine="E3 bounded-exhaustive inputs", level="exploration", design_ref="5/C16",
        technique="full product of header fields x channel through the real receive path against the statement's decision table",
        text="Every combination of service{own,other} x interface version{own,other} x method{returns bytes, returns None, "
             "rejects, unknown} x all 10 message types x all 11 return codes x client/session ids x payloads x "
             "{unicast,multicast} is delivered through SimpleService.datagram_received; replies are decoded by an "
             "independent decoder and compared with the decision table (first failing check decides).",
        note=_TB,
    ),
    "C19": dict(
        engine="E3 bounded-exhaustive inputs", level="exploration", design_ref="5/C19",
        technique="exhaustive pairs over {2 concrete, wildcard, wildcard-1} per field against an independent field-wise matcher and the algebraic laws",
        text="All 16384 ordered pairs of descriptions over a per-field domain of two concrete values, the wildcard and "
             "wildcard-1, for every matching function, the find/offer duality, monotonicity, conversions and eventgroup "
             "specialisation; the code only compares for equality with each other and the wildcard constants, so the "
             "domain is representative.",
        note="trusted: the independent matcher in pvmc/props/c19.py (8 lines)",
    ),
    "C05": dict(
        engine="E1 replay-BFS", level="model_checking", design_ref="5/C05",
        technique="explicit-state BFS over event histories replayed on the real discovery stack under a virtual loop; reference liveness table + alternation monitor",
        text="Histories of offers (TTL 1/2/inf), stop-offers, reboot evidence, connection loss and watch/unwatch calls from "
             "two sources for two services are explored breadth-first; each transition rebuilds real objects and replays "
             "the history; message-vs-deadline ties are explored in both orders (pre/post), plus bounded 'one iteration "
             "only' and 'two calls in one iteration' deviations. Two sub-alphabets are explored to closure, the full "
             "menu to a stated depth. Every state is judged against a reference liveness table.",
        note=_TB + "; state key = canonical snapshot of the whole object graph incl. tasks and timers, validated by "
             "re-expanding sampled merged states",
    ),
    "C06": dict(
        engine="E1 replay-BFS", level="model_checking", design_ref="5/C06",
        technique="explicit-state BFS over event histories replayed on the real announcer/instance under a virtual loop; reference subscription table + alternation monitor + Ack bookkeeping",
        text="Histories of Subscribe/StopSubscribe (TTL 1/2/inf), reboot evidence, listener accept/reject, announcer and "
             "service stop/start and connection loss from two subscribers for three subscriptions; ties with the TTL "
             "deadline in both orders; bounded deviations; two sub-alphabets to closure, the full menu to a stated depth.",
        note=_TB,
    ),
    "C09": dict(
        engine="E1 replay-BFS", level="model_checking", design_ref="5/C09",
        technique="explicit-state BFS over add/refresh/stop/remove-all histories and clock moves on the real TimedStore (through its two public seams); exact expected (time, kind) notification list",
        text="All histories of add / refresh / stop / remove-all over 1-2 keys x 1-2 addresses x TTL {1,2,3,0xFFFFFE,inf} "
             "with clock moves to mid-points, deadline-2r, deadline-r/2, deadline (action before / after the timer), "
             "deadline+eps and a 0x1000000 s jump; small alphabets to closure, the larger one to a stated depth; the "
             "observed notification list must equal the reference list exactly (time and kind).",
        note=_TB + "; dyadic durations make clock arithmetic exact",
    ),
    "C10": dict(
        engine="E2 deviation-bounded", level="model_checking", design_ref="5/C10",
        technique="deviation-bounded stateless exploration: all schedules with <=2 control events / FindService placed at every discovered timer instant (-eps, pre, post, +eps) over 80+ timing configurations; generated reference timeline",
        text="For every timing configuration (initial window x choice, 0..2 repetitions, cyclic or not, finite/infinite TTL, "
             "collection timeout zero or not, one or two instances, the SimpleService helper) the default schedule and all "
             "schedules with one disturbance (announcer stop/start, stop-again, service stop/start, connection loss, unicast / "
             "multicast FindService) at every timer instant discovered from the run are executed to the horizon on the "
             "real announcer; two disturbances for a sub-family (all base configurations in the thorough tier). The wire "
             "is decoded by an independent decoder and aligned with a generated reference timeline.",
        note=_TB + "; random.uniform is an explorer choice over {min, max}",
    ),
    "C12": dict(
        engine="E2 deviation-bounded", level="model_checking", design_ref="5/C12",
        technique="exhaustive product of FindService wildcard combinations x channel placed at every discovered timer instant of the offer lifecycle (also after stop / in the iteration of stop / after restart); reference matcher + time window",
        text="All 54 combinations of service/instance/major/minor (concrete or wildcard) x {unicast, multicast} are "
             "delivered at every timer instant discovered from the run (-eps, pre, post, +eps) against four instance sets "
             "(one to three instances, one non-cyclic); lifecycle runs place stop / stop+find in one iteration / "
             "connection loss / restart before the find. Answers decoded from the wire must be exactly those of the "
             "reference matcher, to the requester only, at the exact instant (unicast: receive time + collection "
             "timeout; multicast: + the chosen request-response delay).",
        note=_TB + "; at most one FindService per run",
    ),
    "C13": dict(
        engine="E2 deviation-bounded", level="model_checking", design_ref="5/C13",
        technique="deviation-bounded stateless exploration: <=2 offers / stop-offers at every discovered round or expiry instant over 450 configurations (watched subsets x timing); per-round expected entry list",
        text="For every non-empty subset of <=3 of 5 watched filters x initial window/choice x repetitions {0,1,3} x base "
             "delay {1/8 s, 1 s}: the default run and every run with one offer / stop-offer (three services, TTL 1 or 3) at "
             "every discovered instant (-eps, pre, post, +eps); two events for a sub-family (offers that expire again "
             "between rounds). Each FindService message on the wire must be exactly the list of not-yet-found filters at "
             "that round instant, at the exact round time, to the multicast group; no round after all were found.",
        note=_TB,
    ),
    "C11": dict(
        engine="E3 bounded-exhaustive inputs", level="exploration", design_ref="5/C11",
        technique="full product of Subscribe fields x server configurations x listener decision x channel x prior state against a reference Ack/Nack function",
        text="Every Subscribe entry over (2 services x 2 instances x 2 majors x 3 eventgroups x 3 counters x 4 TTLs x 0/1/2 "
             "endpoints x extra option) against 8 server configurations (none, running, not started, stopped, wildcard "
             "instance, wildcard major, two services, three instances), accept/reject, unicast/multicast, three prior "
             "states reached by real earlier messages and two collection timeouts (343k cases), plus all ordered pairs of "
             "entries of a reduced domain in one message; answers are decoded from the wire; multicast cases are also "
             "compared with a twin run by canonical state snapshot.",
        note=_TB,
    ),
    "C14": dict(
        engine="E1 replay-BFS", level="model_checking", design_ref="5/C14",
        technique="explicit-state BFS to closure over subscribe/stop-subscribe/start/stop/clock histories on the real ServiceSubscriber; reference server applying wire entries in order",
        text="All sequences of subscribe / stop-subscribe / start / stop for up to four (eventgroup, server) pairs (IPv4+UDP "
             "and IPv6+TCP local endpoints, two servers) with clock moves to and around the refresh instants, calls placed "
             "before and after the refresh timer of the same iteration, and bounded two-calls-in-one-iteration deviations; "
             "three configurations, explored to closure; the reference server must hold exactly the requested set at every "
             "idle state and refresh gaps must not exceed the interval.",
        note=_TB,
    ),
    "C15": dict(
        engine="E1 replay-BFS", level="model_checking", design_ref="5/C15",
        technique="explicit-state BFS over queue/burst/stop/start/clock histories on the real announcer send queues; per-destination FIFO + deadline model with tagged entries",
        text="Sequences of queue requests (single entries and bursts of 16/17/40 with distinct options) for the multicast "
             "group and two unicast peers, announcer stop/start (whose own StopOffers/Offers travel in the same queues), "
             "clock moves to half the window, to the window close (request before / after the timer of the same "
             "iteration) and just before it; collection timeout c and 0. Every entry is tagged and followed from "
             "queue_send to the decoded wire: exactly once, right peer, FIFO per peer, never later than the timeout.",
        note=_TB,
    ),
    "C17": dict(
        engine="E1 replay-BFS", level="model_checking", design_ref="5/C17",
        technique="explicit-state BFS to closure over subscribe/unsubscribe/set-value/notify/bad-subscription/cyclic-tick histories on the real SimpleService + SimpleEventgroup; reference subscriber set + per-destination counter",
        text="All sequences of subscribe / unsubscribe from three endpoints (IPv4, IPv6, IPv4 other port), value updates, "
             "notify_once for every subset of events, refused subscriptions (no endpoint, two endpoints, unknown "
             "eventgroup) and cyclic rounds (calls before / after the timer of the same iteration), with bounded "
             "two-calls-in-one-iteration deviations; three configurations explored to closure. Every datagram is decoded "
             "independently: destination set, events, payload (current value), header fields, per-destination session ids.",
        note=_TB + "; getaddrinfo answers immediately (numeric)",
    ),
    "C18": dict(
        engine="E1 replay-BFS", level="model_checking", design_ref="5/C18",
        technique="per-stream state-space exploration: every (prefix, EOF) state by a single chunk, every two-chunk path into it must reach the same canonical reader+task state (induction over chunk count); oracle = the library's datagram parse loop",
        text="For 85 message sequences (0..3 messages, payloads {0,1,2,17}) with all cut positions, 33 streams with one "
             "corrupted header field (version, type, return code, length 0..7) in each message position and a long "
             "8-message stream (payloads to 4096, boundary windows + grid): every prefix state, EOF at every position, and "
             "every ordered pair of cuts; a real asyncio.StreamReader on the virtual loop is fed with feed_data/feed_eof.",
        note=_TB + "; the canonical state is a complete state vector of reader and reading task, so pairwise path "
             "independence extends to all chunkings by induction",
    ),
    "C02": dict(
        engine="E4 live-object BFS", level="model_checking", design_ref="5/C02",
        technique="BFS over the real encoder's shared option array (state = array, transition = assign one entry) + bounded-exhaustive whole messages judged by an independent SD decoder + exhaustive _find words + unrepresentable-message boundaries",
        text="(1) _find against naive search for all haystacks <=6 / needles <=4 over 3 letters; (2) breadth-first search "
             "over the shared option array: every state reached by real assign_option_index calls, every entry (run1, run2) "
             "over words of length <=2 of a 3-option alphabet (kinds rotate with the seed) applied in every state, the "
             "returned slices must be the entry's own runs and the array may only grow; (3) every path as a whole message "
             "through build() -> independent decoder and parse().resolve_options(); field boundary sweeps; (4) runs of "
             "14..17 options, 254..300 shared options, every field one past its width: exception or exact round-trip; "
             "(5) the same through send_sd and a second endpoint's datagram_received.",
        note=_TB,
    ),
    "C03": dict(
        engine="E3 bounded-exhaustive inputs", level="exploration", design_ref="5/C03",
        technique="complete 1-mutation neighbourhood of a seed corpus + all strings of length <=2 through every decoder and through live endpoints; twin-run comparison by canonical state snapshot",
        text="All 65 793 byte strings of length 0..2 and the complete 1-mutation neighbourhood (every value on structural "
             "bytes, truncations, insertions, region removal/duplication, 32-bit length corruptions, non-ASCII bytes in "
             "configuration text) of 12 valid datagrams (99 k inputs) go to 11 decoder entry points (outcome classes) and, "
             "over unicast and multicast, to a fresh and a warmed-up real discovery endpoint and a service endpoint; the "
             "resulting state (canonical snapshot of stores, timers, sessions, queues, tasks), callbacks and transmissions "
             "must equal those of the twin datagram stripped of everything the endpoint must ignore.",
        note=_TB + "; which SD messages are decodable is decided with the library's own decoder (their meaning is C02/C20)",
    ),
    "C20": dict(
        engine="E3 bounded-exhaustive inputs", level="exploration", design_ref="5/C20",
        technique="decode-encode-decode over every accepted input of the mutation neighbourhood and of an independent non-canonical encoder, cross-checked with an independent decoder",
        text="1.09 M decoder calls: the 1-mutation neighbourhood of the corpus at four decoder levels, all 256 option types "
             "x 6 lengths, all protocol numbers, all flag bytes, configuration strings with garbage, every permutation / "
             "run pair / empty-run index of a 3-option array, unreferenced and duplicated options. Every accepted input "
             "(337 k) is re-encoded and re-decoded; the independent decoder must read the same structure from the input "
             "and from the re-encoded bytes, and must not reject what the library accepts.",
        note=_TB,
    ),
    "C04": dict(
        engine="E2 deviation-bounded", level="model_checking", design_ref="5/C04",
        technique="deviation-bounded stateless exploration of two real SD stacks on one virtual loop with an explorer-owned network: all schedules with <=2 disturbances (stop/start/crash/restart/loss/dup/reorder) at every discovered timer instant; convergence oracle at the deadline and at the horizon",
        text="Two complete real stacks (offerer with a server listener, watcher with find_subscribe_eventgroup and a client "
             "listener) exchange their datagrams through a FIFO network owned by the explorer. For three timing "
             "configurations (finite TTL with refresh; infinite TTL without and with refresh) x both ends of the random "
             "delay windows, every schedule with one disturbance - graceful stop/start, crash, restart, crash+restart "
             "with gap 0 / 0.5 s / 4 s, loss windows, duplication, reordering - placed at every timer instant discovered "
             "from the run (-eps, pre, post, +eps) is executed to the horizon; two disturbances for a sub-family (all in "
             "the thorough tier). Both listeners' views are judged at last disturbance + TTL + cyclic period and again at "
             "the horizon.",
        note=_TB + "; a stack does not hear its own multicast; infinite-TTL configurations honour the statement's side "
             "conditions (no loss / reordering, restarted peer sends at least one message)",
    ),
}
