"""Builders shared by the harnesses: a real ServiceDiscoveryProtocol on a VLoop, the random
seam, recording listeners."""
from __future__ import annotations

import logging

import someip.config
import someip.header
import someip.sd

from .vloop import FakeTransport, HarnessError, VLoop

MCAST = ("224.244.224.245", 30490)


class Choice:
    """replaces the ``random`` module object inside someip.sd: every uniform(a, b) is an
    explorer choice.  `plan` is a sequence of fractions in [0, 1]; when it is exhausted the
    default fraction is used."""

    def __init__(self, plan=(), default=0.0):
        self.plan = list(plan)
        self.default = default
        self.calls = []

    def uniform(self, a, b):
        f = self.plan.pop(0) if self.plan else self.default
        v = a + (b - a) * f
        self.calls.append((a, b, v))
        return v

    def _canon_(self, now):
        return (tuple(self.plan), self.default)


class RandomSeam:
    """context manager: patch someip.sd.random for the duration of one execution"""

    def __init__(self, choice: Choice):
        self.choice = choice

    def __enter__(self):
        self.old = someip.sd.random
        someip.sd.random = self.choice
        return self.choice

    def __exit__(self, *exc):
        someip.sd.random = self.old


def timings(**kw):
    """all-dyadic default timings (exact float arithmetic on the virtual clock)"""
    base = dict(
        INITIAL_DELAY_MIN=0.0, INITIAL_DELAY_MAX=0.0,
        REQUEST_RESPONSE_DELAY_MIN=0.0, REQUEST_RESPONSE_DELAY_MAX=0.0,
        REPETITIONS_MAX=0, REPETITIONS_BASE_DELAY=0.125, CYCLIC_OFFER_DELAY=1,
        FIND_TTL=3, ANNOUNCE_TTL=3, SUBSCRIBE_TTL=3, SUBSCRIBE_REFRESH_INTERVAL=2,
        SEND_COLLECTION_TIMEOUT=0,
    )
    base.update(kw)
    return someip.sd.Timings(**base)


def make_sd(loop: VLoop, t=None, sockname=("192.0.2.1", 30490), sink=None):
    prot = someip.sd.ServiceDiscoveryProtocol(MCAST, timings=t or timings())
    prot.transport = FakeTransport(loop, sockname=sockname, sink=sink)
    return prot


class ClientRec(someip.sd.ClientServiceListener):
    """recording discovery listener; identity (hash/eq) by name so set order is stable"""

    def __init__(self, name, log, loop):
        self.name = name
        self.log = log
        self.loop = loop

    def __hash__(self):
        return hash(self.name)

    def __eq__(self, other):
        return isinstance(other, ClientRec) and other.name == self.name

    def service_offered(self, service, source):
        self.log.append((self.loop.time(), self.loop.iteration, self.name, "offered", service, source))

    def service_stopped(self, service, source):
        self.log.append((self.loop.time(), self.loop.iteration, self.name, "stopped", service, source))

    def _canon_(self, now):
        return ("ClientRec", self.name)


class ServerRec(someip.sd.ServerServiceListener):
    """recording server-side listener with a harness-controlled reject set"""

    def __init__(self, name, log, loop):
        self.name = name
        self.log = log
        self.loop = loop
        self.reject = set()  # eventgroup ids to reject

    def client_subscribed(self, subscription, source):
        if subscription.id in self.reject:
            self.log.append((self.loop.time(), self.loop.iteration, self.name, "rejected", subscription, source))
            raise someip.sd.NakSubscription
        self.log.append((self.loop.time(), self.loop.iteration, self.name, "subscribed", subscription, source))

    def client_unsubscribed(self, subscription, source):
        self.log.append((self.loop.time(), self.loop.iteration, self.name, "unsubscribed", subscription, source))

    def _canon_(self, now):
        return ("ServerRec", self.name, tuple(sorted(self.reject)))


class LogCapture(logging.Handler):
    """the library's log_exceptions decorator swallows exceptions of tasks and logs them; that
    log record is the only trace, so it is captured as an observation"""

    def __init__(self):
        super().__init__(level=logging.ERROR)
        self.records = []

    def emit(self, record):
        if record.exc_info and str(record.msg).startswith("unhandled exception"):
            exc = record.exc_info[1]
            self.records.append((str(record.getMessage()), type(exc).__name__, str(exc)))


CAPTURE = LogCapture()


def install_log_capture():
    """idempotent; everything below ERROR is filtered at the logger (cheap)"""
    logging.disable(logging.NOTSET)
    for name in ("someip",):
        lg = logging.getLogger(name)
        lg.setLevel(logging.ERROR)
        lg.propagate = False
        if CAPTURE not in lg.handlers:
            lg.handlers[:] = [CAPTURE]
    CAPTURE.records.clear()
    return CAPTURE


def deliver(prot, data: bytes, addr, multicast: bool):
    """the call DatagramProtocolAdapter makes; an exception leaving it is an observation"""
    prot.datagram_received(data, addr, multicast)


__all__ = ["Choice", "RandomSeam", "timings", "make_sd", "ClientRec", "ServerRec", "deliver",
           "MCAST", "HarnessError"]
