"""E2: deviation-bounded stateless exploration of timed runs.

A run = the default (fault-free) schedule of a harness plus a tuple of disturbances
    (t, pos, act)
t    a virtual instant: a timer deadline discovered from the run itself, or that deadline -/+ eps
pos  'pre'  : the action runs at the I/O position of the iteration at t (before timers due at t)
     'post' : after the timers due at t, in the same iteration
     'pre+k' / 'post+k' (opt-in per harness, `extra_positions`): the same positions k loop iterations later at the
              same instant - e.g. 'post+1' is "in the iteration in which a datagram sent by a timer of t is delivered,
              after its delivery and before the callbacks its handling deferred"
act  a property-specific action tuple
Runs always go to the horizon.  Level k of the exploration holds every run with k disturbances.
"""
from __future__ import annotations

import functools

from . import core, explore
from .vloop import EPS, VLoop
from .world import install_log_capture


class DevSys:
    place_from = 0.0
    place_until = 3.0
    tail = 3.0  # the run continues this long after the last disturbance (at least to place_until)
    extra_positions = ()

    def __init__(self, cfg):
        self.cfg = cfg
        self.loop = VLoop().install()
        self.violations = []
        self.capture = install_log_capture()
        self.exceptions = []
        try:
            self.setup(cfg)
        except BaseException:
            self.loop.dispose()
            raise

    def setup(self, cfg):
        raise NotImplementedError

    def do(self, act):
        raise NotImplementedError

    def actions(self):
        """actions that may be placed after the disturbances applied so far"""
        return []

    def judge(self):
        """called at the horizon; appends to self.violations"""

    def outcome(self):
        return None

    def close(self):
        self.loop.dispose()

    def viol(self, clause, disc, detail):
        self.violations.append(dict(clause=clause, disc=disc, detail=detail))

    def _do(self, act):
        try:
            self.do(act)
        except Exception as e:  # noqa: BLE001
            self.exceptions.append((act, type(e).__name__, str(e)))
            self.on_exception(act, e)

    def on_exception(self, act, e):
        self.viol("no-exception", type(e).__name__, f"action {act} at t={self.loop.time()} raised {type(e).__name__}: {e}")

    def run_to(self, t):
        """run the loop up to but not including the iteration at t"""
        loop = self.loop
        loop.settle()
        while True:
            w = loop.next_timer()
            if w is None or w >= t - loop._clock_resolution:
                break
            loop.advance_to(w)
            loop.settle()
        if t > loop.time():
            loop.advance_to(t)

    def apply(self, dev):
        t, pos, act = dev
        self.run_to(t)
        cb = functools.partial(self._do, tuple(act))
        self.before_action(dev)
        if "+" in pos:
            pos, n = pos.split("+")
            for _ in range(int(n)):
                self.loop.iterate()
        if pos == "pre":
            self.loop.settle(pre=[cb])
        else:
            self.loop.settle(post=[cb])

    def before_action(self, dev):
        pass

    def placements(self, last_t):
        loop = self.loop
        r = loop._clock_resolution
        acts = list(self.actions())
        seen = set()
        out = []
        lo = max(last_t, self.place_from)
        for w in sorted(loop.timer_instants):
            for t, poss in ((w - EPS, ("pre",)), (w, ("pre", "post") + tuple(self.extra_positions)), (w + EPS, ("pre",))):
                if t <= lo + r or t > self.place_until:
                    continue
                for pos in poss:
                    if (t, pos) in seen:
                        continue
                    seen.add((t, pos))
                    for a in acts:
                        out.append((t, pos, a))
        return out


def run(cls, job):
    cfg, devs = job
    s = cls(cfg)
    try:
        last = 0.0
        for dev in devs:
            s.apply(dev)
            last = dev[0]
        s.run_to(max(s.place_until, last + s.tail))
        s.loop.settle()
        s.judge()
        viols = list(s.violations)
        ex = s.loop.collect_exceptions()
        if ex:
            viols.append(dict(clause="loop-exception", disc=str(ex[0][2]), detail=f"loop exception handler: {ex[:2]}"))
        if s.capture.records:
            rrec = s.capture.records[0]
            viols.append(dict(clause="swallowed-exception", disc=rrec[1], detail=f"log_exceptions swallowed: {rrec}"))
        places = s.placements(last) if not viols else []
        return viols, s.outcome(), places
    finally:
        s.close()


def search(ctx, cls, cfgs, k_max, restrict=None, deadline=None):
    fn = functools.partial(run, cls)
    res = explore.deviations(fn, k_max, cfgs, deadline=deadline, restrict=restrict,
                             stop_if=core.unknown_violation_pred(ctx.prop))
    viols = []
    for (cfg, devs), v in res.violations:
        case = dict(cfg=cfg, devs=[list(d) for d in devs])
        viols.append(core.Violation(ctx.prop, v["clause"], v["disc"], case, detail=v["detail"]))
    return res, viols


def replay_case(cls, body, verbose=True):
    from .e1 import untuple
    case = body["case"]
    cfg = untuple(case["cfg"])
    devs = tuple(tuple(untuple(d)) for d in case["devs"])
    v1, o1, _ = run(cls, (cfg, devs))
    v2, o2, _ = run(cls, (cfg, devs))
    if verbose:
        print("cfg:", cfg)
        print("disturbances:", devs)
        print("outcome:", o1)
    if (v1, o1) != (v2, o2):
        print("HARNESS-ERROR: nondeterministic replay")
        return 2
    for v in v1:
        print("FAILS:", v)
    return 1 if v1 else 0
