"""Runner plumbing shared by all checks: context, violations, known findings, replay
files, evidence files, worker pool."""
from __future__ import annotations

import hashlib
import json
import multiprocessing
import os
import subprocess
import sys
import time

VERIF = os.path.dirname(os.path.dirname(os.path.abspath(__file__)))
REPO = os.environ.get("VERIF_REPO", "/repo")
NPROC = int(os.environ.get("VERIF_JOBS", "0")) or min(16, os.cpu_count() or 1)


class Ctx:
    def __init__(self, prop, tier, seed):
        self.prop = prop
        self.tier = tier
        self.seed = seed
        self.t0 = time.time()
        self.thorough = tier == "thorough"

    def pick(self, quick, thorough):
        return thorough if self.thorough else quick

    def rot(self, seq, k=0):
        """rotate representatives with the seed: the alphabet's shape is fixed, the
        representatives are not"""
        seq = list(seq)
        n = (self.seed + k) % len(seq)
        return seq[n:] + seq[:n]


class Violation:
    """one violating case.  `signature` = property/clause/discriminator (DESIGN 6.3)."""

    def __init__(self, prop, clause, disc, case, expected=None, observed=None, detail=""):
        self.prop = prop
        self.clause = clause
        self.disc = disc
        self.case = case  # JSON-able description sufficient to replay
        self.expected = expected
        self.observed = observed
        self.detail = detail

    @property
    def signature(self):
        return f"{self.prop}/{self.clause}/{self.disc}"

    def to_json(self):
        return dict(property=self.prop, signature=self.signature, clause=self.clause,
                    discriminator=self.disc, case=self.case, expected=self.expected,
                    observed=self.observed, detail=self.detail)


def jsonable(x):
    if isinstance(x, (bytes, bytearray)):
        return {"hex": bytes(x).hex()}
    if isinstance(x, dict):
        return {str(k): jsonable(v) for k, v in x.items()}
    if isinstance(x, (list, tuple)):
        return [jsonable(v) for v in x]
    if isinstance(x, (set, frozenset)):
        return sorted((jsonable(v) for v in x), key=repr)
    if isinstance(x, (str, int, float, bool)) or x is None:
        return x
    return repr(x)


def unjson(x):
    if isinstance(x, dict) and set(x) == {"hex"}:
        return bytes.fromhex(x["hex"])
    if isinstance(x, dict):
        return {k: unjson(v) for k, v in x.items()}
    if isinstance(x, list):
        return tuple(unjson(v) for v in x)
    return x


# -- known findings ---------------------------------------------------------------------

def load_known_findings():
    """-> ({signature: text} for `known:` lines, [fixed lines])"""
    known, fixed = {}, []
    path = os.path.join(VERIF, "KNOWN_FINDINGS.txt")
    if not os.path.exists(path):
        return known, fixed
    for line in open(path):
        line = line.strip()
        if not line or line.startswith("#"):
            continue
        if line.startswith("known:"):
            parts = line[len("known:"):].split()
            kv = dict(p.split("=", 1) for p in parts[:2])
            known[kv["key"]] = (kv["property"], " ".join(parts[2:]))
        elif line.startswith("fixed:"):
            fixed.append(line)
    return known, fixed


def unknown_violation_pred(prop):
    """-> predicate(list of violation dicts): is there a violation that is not a listed known finding?
    (searches stop early only for those; exploration continues through known findings)"""
    known, _ = load_known_findings()

    def pred(viols):
        return any(f"{prop}/{v['clause']}/{v['disc']}" not in known for v in viols)
    return pred


# -- repo identity ------------------------------------------------------------------------

def repo_state():
    try:
        head = subprocess.run(["git", "-C", REPO, "rev-parse", "HEAD"], capture_output=True,
                              text=True, timeout=20).stdout.strip()
        dirty = bool(subprocess.run(["git", "-C", REPO, "status", "--porcelain", "--", "src"],
                                    capture_output=True, text=True, timeout=20).stdout.strip())
    except Exception:  # pragma: no cover
        head, dirty = "unknown", True
    return head, dirty


# -- finishing a check ----------------------------------------------------------------------

def finish(ctx: Ctx, level: str, coverage: dict, violations, assumptions, extra_known_lines=()):
    """writes evidence + replay files, prints VIOLATION / KNOWN-FINDING lines, returns exit code"""
    known, _fixed = load_known_findings()
    by_sig = {}
    for v in violations:
        by_sig.setdefault(v.signature, []).append(v)
    new, listed = [], []
    for sig, vs in sorted(by_sig.items()):
        (listed if sig in known else new).append((sig, vs))
    os.makedirs(os.path.join(VERIF, "replays"), exist_ok=True)
    # evidence under /verif/evidence only ever describes /repo itself; runs against a scratch tree (VERIF_REPO, used to
    # evaluate seeded changes) leave theirs under /tmp
    evdir = os.environ.get("VERIF_EVIDENCE_DIR") or (
        os.path.join(VERIF, "evidence") if os.path.realpath(REPO) == "/repo" else "/tmp/pvmc-scratch-evidence")
    os.makedirs(evdir, exist_ok=True)
    lines = []
    for sig, vs in listed:
        lines.append(f"KNOWN-FINDING: property={ctx.prop} {sig} {known[sig][1]} ({len(vs)} cases)")
    replay_paths = []
    for sig, vs in new:
        v = vs[0]
        body = v.to_json()
        body["tier"] = ctx.tier
        body["seed"] = ctx.seed
        body["cases_with_this_signature"] = len(vs)
        blob = json.dumps(jsonable(body), indent=1, sort_keys=True)
        h = hashlib.sha256((sig + json.dumps(jsonable(v.case), sort_keys=True)).encode()).hexdigest()[:12]
        path = os.path.join(VERIF, "replays", f"{ctx.prop}-{h}.json")
        with open(path, "w") as f:
            f.write(blob + "\n")
        replay_paths.append(path)
        lines.append(f"VIOLATION property={ctx.prop} replay={path}")
        lines.append(f"  signature={sig} cases={len(vs)} detail={v.detail}"[:600])
    head, dirty = repo_state()
    cov = dict(coverage)
    cov.setdefault("samples", [])
    cov["repo_head"] = head
    cov["repo_src_dirty"] = dirty
    cov["violation_signatures"] = {sig: len(vs) for sig, vs in by_sig.items()}
    cov["known_findings_matched"] = [sig for sig, _ in listed]
    ev = dict(property_id=ctx.prop, tier=ctx.tier, seed=ctx.seed, level=level,
              coverage=jsonable(cov), assumptions=list(assumptions),
              wall_s=round(time.time() - ctx.t0, 3), violations=sum(len(vs) for _, vs in new))
    with open(os.path.join(evdir, f"{ctx.prop}.json"), "w") as f:
        json.dump(ev, f, indent=1, sort_keys=True)
        f.write("\n")
    for ln in lines:
        print(ln)
    summ = {k: v for k, v in cov.items() if isinstance(v, (int, float, bool, str)) and k not in ("rule",)}
    print(f"[{ctx.prop}] tier={ctx.tier} seed={ctx.seed} wall={ev['wall_s']}s "
          + " ".join(f"{k}={v}" for k, v in summ.items() if k not in ("repo_head", "explanation")))
    sys.stdout.flush()
    return 1 if new else 0


# -- worker pool ----------------------------------------------------------------------------

_POOL = None


def pool():
    global _POOL
    if _POOL is None:
        ctxm = multiprocessing.get_context("fork")
        _POOL = ctxm.Pool(NPROC)
    return _POOL


def close_pool():
    global _POOL
    if _POOL is not None:
        _POOL.terminate()
        _POOL.join()
        _POOL = None


class Hang(Exception):
    """exploration did not terminate within the watchdog: the code under test loops (every harness
    is bounded by construction: settle budgets, finite enumerations)"""


# Watchdog budgets.  Non-termination of the code under test burns CPU, so the deciding budgets are CPU seconds of the
# process that runs the code (ITIMER_VIRTUAL: user time of that process only) - they do not depend on how loaded the
# machine is.  The wall-clock limits are a generous backstop for a run that blocks without using CPU.
CPU_PER_ITEM = {"quick": 300.0, "thorough": 1800.0}  # one work item in a pool worker
CPU_MAIN = {"quick": 900.0, "thorough": 6 * 3600.0}  # the main process (collecting results, serial parts, replays)
WATCHDOG = {"quick": 3600.0, "thorough": 12 * 3600.0}  # wall clock, per batch of work items
TIER = "quick"


class CpuLimit(KeyboardInterrupt):
    """raised by the CPU-time signal inside whatever is running; a KeyboardInterrupt subclass so that neither
    `except Exception` in a harness nor asyncio's task machinery swallows it"""


def _on_cpu_limit(signum, frame):
    raise CpuLimit()


def cpu_guard(limit):
    """arm the CPU-time watchdog of this process: CpuLimit after `limit` CPU seconds, then again every 5 CPU seconds
    until it gets through; limit 0 disarms"""
    import signal
    if limit:
        signal.signal(signal.SIGVTALRM, _on_cpu_limit)
        signal.setitimer(signal.ITIMER_VIRTUAL, limit, 5.0)
    else:
        signal.setitimer(signal.ITIMER_VIRTUAL, 0)


def _guarded(fn, limit, x):
    if os.environ.get("VERIF_DEBUG_FAULT"):
        import faulthandler
        import signal
        faulthandler.register(signal.SIGUSR1, file=open(f"/tmp/fault-{os.getpid()}.txt", "w"), all_threads=True)
    try:
        cpu_guard(limit)
        try:
            return fn(x)
        finally:
            cpu_guard(0)
    except CpuLimit:
        cpu_guard(0)
        raise Hang(f"a work item of {getattr(fn, '__name__', None) or getattr(getattr(fn, 'func', None), '__name__', fn)} used more "
                   f"than {limit:.0f} CPU seconds") from None


def pmap(fn, items, chunksize=None, timeout=None):
    """ordered parallel map over a list with the forked pool (fn must be a module-level
    function; workers inherit module state set up before the first call)"""
    import functools
    items = list(items)
    if not items:
        return []
    if NPROC <= 1:
        return [fn(x) for x in items]
    if chunksize is None:
        chunksize = max(1, min(256, len(items) // (NPROC * 8) or 1))
    if timeout is None:
        timeout = float(os.environ.get("VERIF_WATCHDOG", WATCHDOG[TIER]))
    limit = float(os.environ.get("VERIF_CPU_PER_ITEM", CPU_PER_ITEM[TIER]))
    res = pool().map_async(functools.partial(_guarded, fn, limit), items, chunksize)
    try:
        return res.get(timeout)
    except multiprocessing.TimeoutError:
        close_pool()
        raise Hang(f"{len(items)} work items of {getattr(fn, '__name__', fn)} did not finish within {timeout:.0f} s") from None
    except Hang:
        close_pool()
        raise


class Samples:
    """keeps a few written-out cases: first ones, one per distinct outcome class, the deepest"""

    def __init__(self, cap=12):
        self.cap = cap
        self.items = []
        self.classes = set()

    def add(self, case, outcome=None):
        if outcome is not None:
            if outcome in self.classes:
                return
            self.classes.add(outcome)
        if len(self.items) < self.cap:
            self.items.append(dict(case=jsonable(case), outcome=jsonable(outcome)))

    def out(self):
        return self.items
