"""entry point: python -m pvmc.run <ID> [--tier quick|thorough] [--replay FILE] | --selftest"""
from __future__ import annotations

import argparse
import importlib
import json
import logging
import os
import sys
import traceback
import warnings


def main(argv=None):
    ap = argparse.ArgumentParser()
    ap.add_argument("prop", nargs="?")
    ap.add_argument("--tier", default=os.environ.get("VERIF_TIER") or "quick",
                    choices=["quick", "thorough"])
    ap.add_argument("--replay")
    ap.add_argument("--selftest", action="store_true")
    args = ap.parse_args(argv)
    logging.disable(logging.CRITICAL)
    warnings.simplefilter("ignore")

    import someip
    from . import core
    want = os.path.realpath(os.path.join(core.REPO, "src", "someip"))
    got = os.path.realpath(os.path.dirname(someip.__file__))
    if want != got:
        print(f"HARNESS-ERROR: someip imported from {got}, expected {want}")
        return 2
    if args.selftest:
        from . import selftest
        return selftest.main()
    if not args.prop:
        ap.error("property id required")
    try:
        seed = int(os.environ.get("VERIF_SEED", "0") or 0)
    except ValueError:
        seed = 0
    mod = importlib.import_module(f"pvmc.props.{args.prop.lower()}")
    ctx = core.Ctx(args.prop.upper(), args.tier, seed)
    try:
        if args.replay:
            body = core.unjson(json.load(open(args.replay)))
            return mod.replay(ctx, body)
        return mod.check(ctx)
    except core_harness_errors() as e:
        traceback.print_exc()
        print(f"HARNESS-ERROR: {e}")
        return 2
    finally:
        core.close_pool()


def core_harness_errors():
    from .vloop import HarnessError
    return (HarnessError,)


if __name__ == "__main__":
    sys.exit(main())
