"""entry point: python -m pvmc.run <ID> [--tier quick|thorough] [--replay FILE] | --selftest"""
from __future__ import annotations

import argparse
import importlib
import json
import logging
import os
import sys
import traceback
import warnings


def main(argv=None):
    ap = argparse.ArgumentParser()
    ap.add_argument("prop", nargs="?")
    ap.add_argument("--tier", default=os.environ.get("VERIF_TIER") or "quick",
                    choices=["quick", "thorough"])
    ap.add_argument("--replay")
    ap.add_argument("--selftest", action="store_true")
    args = ap.parse_args(argv)
    logging.disable(logging.CRITICAL)
    warnings.simplefilter("ignore")

    import someip
    from . import core
    want = os.path.realpath(os.path.join(core.REPO, "src", "someip"))
    got = os.path.realpath(os.path.dirname(someip.__file__))
    if want != got:
        print(f"HARNESS-ERROR: someip imported from {got}, expected {want}")
        return 2
    if args.selftest:
        from . import selftest
        return selftest.main()
    if not args.prop:
        ap.error("property id required")
    try:
        seed = int(os.environ.get("VERIF_SEED", "0") or 0)
    except ValueError:
        seed = 0
    mod = importlib.import_module(f"pvmc.props.{args.prop.lower()}")
    ctx = core.Ctx(args.prop.upper(), args.tier, seed)
    core.TIER = args.tier
    import signal

    def on_alarm(signum, frame):
        raise core.Hang(f"the check did not finish within its watchdog ({core.WATCHDOG[args.tier] * 1.5:.0f} s)")

    signal.signal(signal.SIGALRM, on_alarm)
    signal.alarm(int(float(os.environ.get("VERIF_WATCHDOG", core.WATCHDOG[args.tier])) * 1.5))
    # (with VERIF_JOBS=1 the main process does the workers' share, too)
    cpu_main = float(os.environ.get("VERIF_CPU_MAIN", core.CPU_MAIN[args.tier])) * (16 if core.NPROC <= 1 else 1)
    core.cpu_guard(cpu_main)
    try:
        if args.replay:
            body = core.unjson(json.load(open(args.replay)))
            return mod.replay(ctx, body)
        return mod.check(ctx)
    except (core.Hang, core.CpuLimit) as e:
        core.cpu_guard(0)
        if isinstance(e, core.CpuLimit):
            e = core.Hang(f"the main process of the check used more than {cpu_main:.0f} CPU seconds")
        # non-termination is a property violation of its own (bounded harnesses always terminate)
        v = core.Violation(ctx.prop, "termination", "watchdog", dict(hang=str(e)), detail=str(e))
        cov = dict(evaluations=1, distinct_nontrivial=0, rule="aborted by the watchdog", samples=[dict(hang=str(e))],
                   states=1, transitions=1, traces_validated_against_impl=0, aborted=True)
        return core.finish(ctx, "other", dict(cov, explanation="aborted by the watchdog: " + str(e)), [v], [])
    except core_harness_errors() as e:
        traceback.print_exc()
        print(f"HARNESS-ERROR: {e}")
        return 2
    finally:
        core.cpu_guard(0)
        core.close_pool()


def core_harness_errors():
    from .vloop import HarnessError
    return (HarnessError,)


if __name__ == "__main__":
    sys.exit(main())
