"""Exploration drivers.

bfs()      level-synchronous explicit-state search.  A node is whatever the property's
           expand function needs to rebuild the state: an event history (E1, replayed
           on fresh real objects) or a plain state vector (E4, restored into the live
           real object).  expand(node) runs in a worker and returns, per enabled event,
           (label, successor node, state key, violations, outcome class).
deviations() deviation-bounded stateless exploration (E2): level k holds all runs with k
           disturbances; run(devs) executes the default schedule with the disturbances
           applied, to the horizon, and returns its verdicts plus the placements at which
           one more disturbance can be put (discovered from the run itself).
"""
from __future__ import annotations

import time

from . import core


class BfsResult:
    def __init__(self):
        self.states = 0
        self.transitions = 0
        self.depth_completed = 0
        self.closure = False
        self.frontier = 0
        self.dedupe_hits = 0
        self.violations = []  # (path labels, violation dict)
        self.outcomes = {}  # outcome class -> count
        self.levels = []
        self.capped = None
        self.deepest = None
        self.pruned_violating = 0
        self.dedupe_pairs = []  # (node_a, node_b) sampled for validation


def bfs(init_nodes, expand, max_depth, stride=97, max_states=None, deadline=None,
        keep_paths=True, chunksize=None, stop_if=None):
    """init_nodes: list of (node, key).  expand(node) -> list of
    (label, next_node, key, [violation dict...], outcome).  States in which a violation
    was observed are reported and not expanded further."""
    res = BfsResult()
    seen = {}
    frontier = []
    for node, key in init_nodes:
        if key not in seen:
            seen[key] = (None, None, node) if keep_paths else None
            frontier.append((node, key))
    res.states = len(seen)
    depth = 0
    hits = 0
    while frontier and depth < max_depth:
        if deadline is not None and time.time() > deadline:
            res.capped = f"time budget reached before level {depth + 1}"
            break
        results = core.pmap(expand, [n for n, _ in frontier], chunksize)
        nxt = []
        for (node, pkey), succs in zip(frontier, results):
            for label, nnode, key, viols, outcome in succs:
                res.transitions += 1
                if outcome is not None:
                    res.outcomes[outcome] = res.outcomes.get(outcome, 0) + 1
                if viols:
                    res.pruned_violating += 1
                    path = path_of(seen, pkey) + [label] if keep_paths else [label]
                    for v in viols:
                        res.violations.append((path, v))
                    continue
                if key in seen:
                    res.dedupe_hits += 1
                    hits += 1
                    if stride and hits % stride == 0 and keep_paths and len(res.dedupe_pairs) < 64:
                        res.dedupe_pairs.append((seen[key][2], nnode))
                    continue
                seen[key] = (pkey, label, nnode) if keep_paths else None
                nxt.append((nnode, key))
                res.deepest = (nnode, key)
        depth += 1
        res.levels.append(len(nxt))
        res.states = len(seen)
        frontier = nxt
        if stop_if is not None and stop_if([v for _, v in res.violations]):
            # level-synchronous: these are shortest counterexamples; a broken tree can have an unbounded
            # state space (e.g. stale timers piling up), so do not try to finish the search
            res.capped = f"stopped after depth {depth}: violations found"
            break
        if max_states is not None and len(seen) > max_states:
            res.capped = f"state cap {max_states} exceeded at depth {depth}"
            break
    res.depth_completed = depth
    res.frontier = len(frontier)
    res.closure = not frontier and res.capped is None
    res.seen = seen
    return res


def path_of(seen, key):
    path = []
    while key is not None:
        ent = seen.get(key)
        if ent is None:
            break
        pkey, label, _ = ent
        if label is not None:
            path.append(label)
        key = pkey
    path.reverse()
    return path


def validate_dedupe(res: BfsResult, expand, limit=24):
    """for sampled pairs of nodes merged by the state key: their successors must have equal
    keys, labels, verdicts and outcomes (one level).  -> (pairs checked, mismatches)"""
    pairs = res.dedupe_pairs[:limit]
    nodes = [n for pair in pairs for n in pair]
    outs = core.pmap(expand, nodes, 1)
    bad = []
    for i, (a, b) in enumerate(pairs):
        # (the outcome class is an evidence statistic that may legitimately depend on the path)
        ra = [(l, k, bool(v)) for l, _, k, v, o in outs[2 * i]]
        rb = [(l, k, bool(v)) for l, _, k, v, o in outs[2 * i + 1]]
        if ra != rb:
            bad.append((a, b))
    return len(pairs), bad


class DevResult:
    def __init__(self):
        self.runs = 0
        self.by_level = []
        self.violations = []  # (devs, violation dict)
        self.outcomes = {}
        self.completed_k = -1
        self.capped = None
        self.instants = 0


def _run_and_filter(run, restrict, k_max, job):
    """worker side of deviations(): run one job and apply the placement veto there (the list of all placements of a run
    is long; only its length and the allowed ones travel back)"""
    cfg, devs = job
    viols, outcome, places = run(job)
    k = len(devs)
    if k >= k_max or viols:
        allowed = []
    elif restrict is None:
        allowed = places
    else:
        allowed = [p for p in places if restrict(cfg, devs, p, k + 1)]
    return viols, outcome, len(places), allowed


def deviations(run, k_max, base_cfgs, deadline=None, restrict=None, chunksize=None, stop_if=None):
    """run((cfg, devs)) -> (violations, outcome, next_placements) where next_placements is a
    list of disturbances that may be appended to devs.  Level-synchronous over k.
    restrict(cfg, devs, placement, k) may veto a placement (used to thin k=2 in quick)."""
    import functools
    res = DevResult()
    level = [(cfg, ()) for cfg in base_cfgs]
    fn = functools.partial(_run_and_filter, run, restrict, k_max)
    for k in range(0, k_max + 1):
        if deadline is not None and time.time() > deadline:
            res.capped = f"time budget reached before k={k}"
            break
        out = core.pmap(fn, level, chunksize)
        nxt = []
        for (cfg, devs), (viols, outcome, nplaces, allowed) in zip(level, out):
            res.runs += 1
            res.outcomes[outcome] = res.outcomes.get(outcome, 0) + 1
            res.instants += nplaces
            for v in viols:
                res.violations.append(((cfg, devs), v))
            for p in allowed:
                nxt.append((cfg, devs + (p,)))
        res.by_level.append(len(level))
        res.completed_k = k
        level = nxt
        if stop_if is not None and stop_if([v for _, v in res.violations]):
            res.capped = f"stopped after k={k}: violations found"
            break
        if not level:
            break
    return res
