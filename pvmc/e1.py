"""E1: replay-BFS over the real transition function, for timed components.

A state is the event history that reaches it.  An event is
    (adv, pos, act, mode)
adv   clock move before the step: None | 'half' | 'next' | 'next-2r' | 'next-r/2' | 'next+eps' | 'jump'
pos   'pre'  : the action runs at the I/O position of the iteration (before timers that are due)
      'post' : after the due timers of the same iteration (an application timer armed later)
act   a property-specific action tuple, or None (just let the loop run)
mode  'settle' : iterate until the loop is idle
      'one'    : exactly one iteration (the next event lands between deferred callbacks)
      'hold'   : the action is held and runs first in the iteration of the next event
                 (two sources ready in one selector wake-up)
'one' and 'hold' are deviations; their number per history is bounded.
"""
from __future__ import annotations

import functools
import time

from . import canon, core, explore
from .vloop import EPS, RESOLUTION, HarnessError, VLoop
from .world import install_log_capture

HALF = 0.5
JUMP = float(0x1000000)


class TimedSys:
    """base class of the E1 harnesses; subclasses implement setup/actions/do/roots and the
    oracle hooks.  Violations are appended to self.violations as dicts(clause, disc, detail)."""

    advs = (None, "half", "next", "next-2r")
    max_deviations = 0
    modes_for_deviation = ("one", "hold")
    # clock moves that shift the phase by less than the resolution / by epsilon make the set of
    # reachable time offsets unbounded; their number per history is bounded like deviations
    FINE = ("next-2r", "next-r/2", "next+eps")
    max_fine = 1
    half_step = HALF

    def __init__(self, cfg):
        self.cfg = cfg
        self.loop = VLoop().install()
        self.violations = []
        self.held = []
        self.deviations = 0
        self.fine_moves = 0
        self.max_fine = cfg.get("fine", self.max_fine) if isinstance(cfg, dict) else self.max_fine
        self.exceptions = []  # (action, exception type) leaving an entry point
        self.outcome = None
        self.capture = install_log_capture()
        if isinstance(cfg, dict) and cfg.get("origin"):
            # the virtual clock starts at another origin: nothing in a statement depends on absolute time
            self.loop.advance_to(cfg["origin"])
        try:
            self.setup(cfg)
        except BaseException:
            self.loop.dispose()
            raise

    # -- to implement -----------------------------------------------------------------
    def setup(self, cfg):
        raise NotImplementedError

    def actions(self):
        return []

    def do(self, act):
        raise NotImplementedError

    def roots(self):
        raise NotImplementedError

    def before_step(self, ev):
        pass

    def after_step(self, ev):
        pass

    def clock_passing(self, t_from, t_to):
        """hook: the clock is about to move (model bookkeeping)"""

    # -- machinery --------------------------------------------------------------------
    def close(self):
        self.loop.dispose()

    def viol(self, clause, disc, detail):
        self.violations.append(dict(clause=clause, disc=disc, detail=detail))

    def _target(self, adv):
        """-> (target time or None if disabled, timers due afterwards?)"""
        loop = self.loop
        now = loop.time()
        d = loop.next_timer()
        r = loop._clock_resolution
        if adv is None:
            return now, loop.timers_due()
        if adv == "half":
            t = now + self.half_step
            if d is not None and d <= t:
                return None, False
            return t, False
        if adv == "jump":
            return now + JUMP, False
        if d is None:
            return None, False
        if adv == "next":
            return (d, True) if d >= now else (None, False)
        if adv == "next-2r":
            t = d - 2 * r
            return (t, False) if t > now else (None, False)
        if adv == "next-r/2":
            t = d - r / 2
            return (t, True) if t > now else (None, False)
        if adv == "next+eps":
            t = d + EPS
            later = [w for w in loop.pending_timers() if d < w <= t]
            return (t, True) if not later else (None, False)
        raise HarnessError(f"unknown adv {adv}")

    def enabled(self):
        evs = []
        idle = self.loop.idle() and not self.held
        acts = list(self.actions())
        can_dev = self.deviations < self.max_deviations
        for adv in self.advs:
            if adv is not None and not idle:
                continue  # the clock only moves while the loop is idle
            if adv in self.FINE and self.fine_moves >= self.max_fine:
                continue
            t, due = self._target(adv)
            if t is None:
                continue
            if adv == "jump":
                evs.append((adv, "pre", None, "settle"))
                continue
            if adv is not None and adv != "next-2r" or (adv is None and not idle):
                evs.append((adv, "pre", None, "settle"))
            if can_dev and adv == "next" and due and getattr(self, "one_after_advance", False):
                # opt-in: move to the next timer and run exactly one iteration, so that the following event lands
                # between the callbacks that timer set off
                evs.append((adv, "pre", None, "one"))
            for act in acts:
                evs.append((adv, "pre", act, "settle"))
                if due:
                    evs.append((adv, "post", act, "settle"))
                if can_dev and adv is None:
                    for m in self.modes_for_deviation:
                        evs.append((adv, "pre", act, m))
        return evs

    def apply(self, ev):
        adv, pos, act, mode = ev
        loop = self.loop
        if adv is not None:
            t, _ = self._target(adv)
            if t is None:
                raise HarnessError(f"event {ev} not enabled")
            if adv == "jump":
                self.clock_passing(loop.time(), t)
                self.before_step(ev)
                loop.run_until(t)
                self.after_step(ev)
                return
            self.clock_passing(loop.time(), t)
            loop.advance_to(t)
            if adv in self.FINE:
                self.fine_moves += 1
        self.before_step(ev)
        cbs = list(self.held)
        self.held = []
        if act is not None:
            cb = functools.partial(self._do, act)
            if mode == "hold":
                self.held = cbs + [cb]
                self.deviations += 1
                self.after_step(ev)
                return
            cbs.append(cb)
        pre = cbs if pos == "pre" else cbs[:-1] if act is not None else cbs
        post = [cbs[-1]] if (pos == "post" and act is not None) else []
        if mode == "one":
            self.deviations += 1
            loop.iterate(pre, post)
        else:
            loop.settle(pre, post) if (pre or post) else loop.settle()
        self.after_step(ev)

    def _do(self, act):
        try:
            self.do(act)
        except Exception as e:  # noqa: BLE001 - an exception leaving an entry point is an observation
            self.exceptions.append((act, type(e).__name__, str(e)))
            self.on_exception(act, e)

    def on_exception(self, act, e):
        self.viol("no-exception", type(e).__name__, f"action {act} raised {type(e).__name__}: {e}")

    def key(self):
        return canon.key_of((canon.snapshot(self.loop, self.roots()), self.key_extra()))

    def key_extra(self):
        return (len(self.held), tuple(repr(h.args[0]) for h in self.held), self.deviations, self.fine_moves)


def final_checks(s):
    """observations that are not tied to one step: loop exception handler, unretrieved task
    exceptions, exceptions swallowed by the library's log_exceptions decorator"""
    viols = []
    if s.loop.idle():
        ex = s.loop.collect_exceptions()
        if ex:
            viols.append(dict(clause="loop-exception", disc=str(ex[0][2]), detail=f"loop exception handler: {ex[:2]}"))
    if s.capture.records:
        r = s.capture.records[0]
        viols.append(dict(clause="swallowed-exception", disc=r[1], detail=f"log_exceptions swallowed: {r}"))
    return viols


def build(cls, cfg, hist):
    s = cls(cfg)
    try:
        for ev in hist:
            s.apply(tuple(ev))
    except BaseException:
        s.close()
        raise
    return s


def expand(cls, cfg, hist):
    s = build(cls, cfg, hist)
    try:
        evs = s.enabled()
    finally:
        s.close()
    out = []
    for ev in evs:
        s = build(cls, cfg, hist)
        try:
            s.outcome = None
            s.apply(ev)
            viols = list(s.violations) + final_checks(s)
            k = s.key()
            if cfg.get("_abs_clock"):
                k = canon.key_of((k, s.loop.time()))  # fallback search: states merge only at equal absolute times
            out.append((ev, hist + (ev,), k, viols, s.outcome))
        finally:
            s.close()
    return out


def run_history(cls, cfg, hist, verbose=False):
    """replay without the explorer; -> (violations, observation log)"""
    s = cls(cfg)
    log = []
    try:
        for ev in hist:
            n0 = len(s.violations)
            s.apply(tuple(ev))
            row = dict(event=ev, time=s.loop.time(), observed=s.describe_step() if hasattr(s, "describe_step") else None,
                       new_violations=s.violations[n0:])
            log.append(row)
            if verbose:
                print(row)
        viols = list(s.violations) + final_checks(s)
        return viols, log
    finally:
        s.close()


def search(ctx, cls, cfg, depth, name, deadline=None, max_states=None, stride=97):
    """one BFS; -> (BfsResult, [core.Violation], detail dict)"""
    if max_states is None:
        # far above what any search needs on a tree whose state is a function of the canonical form (the largest quick
        # search has 25 k states, the largest thorough one about a million): a search that grows beyond this does not
        # close because the code keeps something that never repeats (e.g. an absolute time); it is cut and reported as
        # capped (not exhaustive) instead of running for hours
        max_states = 20_000_000 if ctx.thorough else 250_000
    fn = functools.partial(expand, cls, cfg)
    s = build(cls, cfg, ())
    try:
        k0 = s.key()
    finally:
        s.close()
    res = explore.bfs([((), k0)], fn, depth, stride=stride, deadline=deadline, max_states=max_states,
                      stop_if=core.unknown_violation_pred(ctx.prop))
    viols = []
    for path, v in res.violations:
        case = dict(search=name, cfg=cfg, history=[list(e) for e in path])
        viols.append(core.Violation(ctx.prop, v["clause"], v["disc"], case, detail=v["detail"]))
    nchk, bad = explore.validate_dedupe(res, fn, limit=48 if ctx.thorough else 16)
    if viols:
        ctx.found_violation = True
    if bad and not viols and getattr(ctx, "found_violation", False):
        bad_note = bad
        bad = []  # an earlier search of this run already reported a violation: the mismatch is its consequence
    if bad and not viols and not cfg.get("_abs_clock"):
        # Two histories with the same canonical state (everything relative to the clock) behave differently: the code
        # under test keeps something the canonical state cannot express, typically an absolute time.  The merged
        # search is not trustworthy then; search again with the absolute clock in the key (no merging across
        # time), to a smaller depth.  If that finds a violation it is reported; if not, this is a harness error.
        cfg2 = dict(cfg, _abs_clock=True)
        res2, viols2, det2 = search(ctx, cls, cfg2, min(depth, 6), name + "+absolute-clock", deadline=time.time() + 150,
                                    max_states=150000, stride=stride)
        if viols2:
            for v in viols2:
                v.detail = (v.detail or "") + "  [found by the fallback search with the absolute clock in the state key: " \
                    "canonically equal states had different futures]"
            det2["dedupe_mismatches"] = len(bad)
            return res2, viols2, det2
        raise HarnessError(f"state key merged two states with different futures: {bad[0]}")
    if bad and not viols:
        bad = []  # fallback search: merging by absolute time is sound by construction
    detail = dict(search=name, cfg=core.jsonable(cfg), states=res.states, transitions=res.transitions,
                  depth_completed=res.depth_completed, closure=res.closure, frontier=res.frontier,
                  levels=res.levels, dedupe_hits=res.dedupe_hits, dedupe_validated=nchk, capped=res.capped,
                  pruned_violating=res.pruned_violating, distinct_outcomes=len(res.outcomes),
                  dedupe_mismatches=len(bad))
    return res, viols, detail


def replay_case(cls, body):
    case = body["case"]
    hist = [tuple(untuple(e)) for e in case["history"]]
    cfg = untuple(case["cfg"])
    v1, log = run_history(cls, cfg, hist, verbose=True)
    v2, _ = run_history(cls, cfg, hist)
    if v1 != v2:
        print("HARNESS-ERROR: nondeterministic replay")
        return 2
    for v in v1:
        print("FAILS:", v)
    return 1 if v1 else 0


def untuple(x):
    if isinstance(x, (list, tuple)):
        return tuple(untuple(v) for v in x)
    if isinstance(x, dict):
        return {k: untuple(v) for k, v in x.items()}
    return x


def summarize(details):
    return dict(
        states=sum(d["states"] for d in details), transitions=sum(d["transitions"] for d in details),
        traces_validated_against_impl=sum(d["transitions"] for d in details),
        dedupe_hits=sum(d["dedupe_hits"] for d in details),
        dedupe_validated=sum(d["dedupe_validated"] for d in details),
        caps_hit=[d["capped"] for d in details if d["capped"]],
        searches=details,
    )


def sample_histories(res_list, samples, n=3):
    for name, res in res_list:
        if res.deepest is not None:
            samples.add(dict(search=name, history=res.deepest[0]))


__all__ = ["TimedSys", "build", "expand", "run_history", "search", "replay_case", "summarize",
           "RESOLUTION", "EPS", "HALF"]
