"""./check --selftest : imports, loop-fidelity against a real SelectorEventLoop, determinism
of the canonical snapshot, reference codec sanity.  Exit 0 = framework usable."""
from __future__ import annotations

import asyncio
import socket
import time

from . import canon, refcodec
from .vloop import VLoop


def scenario(loop, make_io, is_virtual):
    """three micro-scenarios; returns the order of callbacks observed"""
    order = []

    # 1. I/O callback and a due timer in the same iteration: I/O first
    # 2. a call_soon made from a callback runs in the next iteration, before timers that
    #    become due then
    # 3. cancelling a task whose future was already resolved: CancelledError wins
    async def sleeper(fut):
        try:
            await fut
            order.append("task-result")
        except asyncio.CancelledError:
            order.append("task-cancelled")

    return order, sleeper


def run_real():
    loop = asyncio.SelectorEventLoop()
    order = []
    a, b = socket.socketpair()
    a.setblocking(False)
    b.setblocking(False)
    try:
        def io_cb():
            b.recv(10)
            order.append("io")
            loop.call_soon(lambda: order.append("soon-from-io"))

        def timer_cb():
            order.append("timer")

        def timer2_cb():
            order.append("timer2")
            loop.stop()

        def kick():
            # make both the socket readable and the timer due before the next select
            loop.call_later(0.02, timer_cb)
            loop.call_later(0.02, lambda: loop.call_later(0.0, timer2_cb))
            a.send(b"x")
            time.sleep(0.05)
            order.append("kick")

        loop.add_reader(b.fileno(), io_cb)
        loop.call_soon(kick)
        loop.run_forever()

        async def sleeper(fut):
            try:
                await fut
                order.append("task-result")
            except asyncio.CancelledError:
                order.append("task-cancelled")

        fut = loop.create_future()
        task = loop.create_task(sleeper(fut))

        def both():
            fut.set_result(1)
            task.cancel()
            loop.call_soon(loop.call_soon, loop.stop)

        loop.call_soon(both)
        loop.run_forever()
    finally:
        loop.remove_reader(b.fileno())
        a.close()
        b.close()
        loop.close()
    return order


def run_virtual():
    loop = VLoop().install()
    order = []
    try:
        def io_cb():
            order.append("io")
            loop.call_soon(lambda: order.append("soon-from-io"))

        def timer_cb():
            order.append("timer")

        def timer2_cb():
            order.append("timer2")

        def kick():
            loop.call_later(0.02, timer_cb)
            loop.call_later(0.02, lambda: loop.call_later(0.0, timer2_cb))
            order.append("kick")

        loop.call_soon(kick)
        loop.iterate()
        loop.advance(0.05)
        loop.settle(pre=[io_cb])

        async def sleeper(fut):
            try:
                await fut
                order.append("task-result")
            except asyncio.CancelledError:
                order.append("task-cancelled")

        fut = loop.create_future()
        task = loop.create_task(sleeper(fut))

        def both():
            fut.set_result(1)
            task.cancel()

        loop.call_soon(both)
        loop.settle()
    finally:
        loop.dispose()
    return order


def snapshot_determinism():
    import logging

    logging.disable(logging.CRITICAL)
    import someip.config as cfg
    import someip.sd as sd
    from .world import Choice, RandomSeam, make_sd, timings

    keys = []
    for _ in range(2):
        loop = VLoop().install()
        try:
            with RandomSeam(Choice()):
                p = make_sd(loop, timings(REPETITIONS_MAX=1))
                inst = sd.ServiceInstance(cfg.Service(0x1111, 1, 1, 0, eventgroups=frozenset({5})),
                                          sd.ServerServiceListener(), p.announcer, p.timings)
                p.announcer.announce_service(inst)
                p.discovery.watch_service(cfg.Service(0x2222), sd.ClientServiceListener())
                p.start()
                loop.run_until(2.5)
                keys.append(canon.state_key(loop, [p]))
        finally:
            loop.dispose()
    return keys[0] == keys[1], keys


def codec_sanity():
    opts = [refcodec.v4("192.0.2.7", 30501), ("config", (("foo", "bar"), ("k", None), ("a", "b=c"))),
            ("loadbal", 1, 2), ("unknown", 0x77, b"\x00abc")]
    msg = refcodec.sd_message(7, [("offer", 0x1111, 1, 1, 3, 0, tuple(opts[:2]), tuple(opts[2:]))])
    out = refcodec.dec_sd_datagram(msg)
    e = out[0]["entries"][0]
    return e[6] == tuple(opts[:2]) and e[7] == tuple(opts[2:]) and out[0]["session"] == 7


def main():
    ok = True
    real = run_real()
    virt = run_virtual()
    print("selftest loop order real   :", real)
    print("selftest loop order virtual:", virt)
    if real != virt:
        print("SELFTEST-FAIL: virtual loop orders callbacks differently from SelectorEventLoop")
        ok = False
    same, keys = snapshot_determinism()
    print("selftest snapshot determinism:", same)
    ok = ok and same
    cs = codec_sanity()
    print("selftest reference codec:", cs)
    ok = ok and cs
    print("selftest", "OK" if ok else "FAILED")
    return 0 if ok else 2
