"""Seed corpus of valid SOME/IP / SD datagrams (built by the independent encoder) and the finite
mutation neighbourhood used by C03 and C20.

A seed is (name, bytes, structure) where structure lists the offsets of structural bytes
(lengths, counts, indexes, types, flags, reserved bits, protocol numbers) and of configuration
strings, known by construction."""
from __future__ import annotations

from . import refcodec as rc


def _sd(session, entries, options_layout=None, **kw):
    return rc.sd_message(session, entries, **kw)


def seeds(seed=0):
    s = 0x1234 + (seed % 7) * 0x111
    v4 = rc.v4("192.0.2.9", 30501)
    v6 = rc.v6(bytes([0x20, 0x01, 0x0d, 0xb8] + [0] * 11 + [9]), 30502, proto=6)
    lb = ("loadbal", 1, 2)
    cfg = ("config", (("foo", "bar"), ("k", None), ("a", "b=c")))
    unk = ("unknown", 0x77, b"\x00\x01\x02\x03")
    out = []
    out.append(("plain-request", rc.enc_someip(s, 0x0001, 0x0A0B, 0x0C0D, 2, 0x00, 0, b"payload!")))
    out.append(("sd-find", _sd(1, [("find", s, 0xFFFF, 0xFF, 3, 0xFFFFFFFF, (), ())])))
    out.append(("sd-offer-v4", _sd(2, [("offer", s, 1, 1, 3, 0, (v4,), ())])))
    out.append(("sd-offer-v6-lb", _sd(3, [("offer", s, 1, 1, 3, 7, (v6,), (lb,))])))
    out.append(("sd-subscribe-cfg", _sd(4, [("subscribe", s, 1, 1, 3, (1 << 16) | 5, (v4,), (cfg,))])))
    out.append(("sd-suback", _sd(5, [("suback", s, 1, 1, 3, 5, (), ())])))
    out.append(("sd-stopoffer", _sd(6, [("offer", s, 1, 1, 0, 0, (v4,), ())])))
    # three entries sharing options across both runs (hand-laid shared array)
    opts = [v4, lb, cfg]
    raw = [dict(type=1, i1=0, i2=1, n1=1, n2=2, service=s, instance=1, major=1, ttl=3, last=0),
           dict(type=1, i1=1, i2=0, n1=1, n2=1, service=s, instance=2, major=1, ttl=3, last=0),
           dict(type=6, i1=0, i2=2, n1=2, n2=1, service=s, instance=1, major=1, ttl=3, last=5)]
    out.append(("sd-shared-options", rc.enc_someip(0xFFFF, 0x8100, 0, 7, 1, 2, 0, rc.enc_sd(0xC0, raw, opts))))
    out.append(("sd-unknown-option", _sd(8, [("offer", s, 1, 1, 3, 0, (unk,), (v4,))])))
    raw = [dict(type=1, i1=0, i2=0, n1=1, n2=0, service=s, instance=1, major=1, ttl=3, last=0)]
    out.append(("sd-unreferenced-option", rc.enc_someip(0xFFFF, 0x8100, 0, 9, 1, 2, 0, rc.enc_sd(0xC0, raw, [v4, lb]))))
    out.append(("sd-unicast-flag-clear", _sd(10, [("offer", s, 1, 1, 3, 0, (v4,), ())], unicast=False)))
    out.append(("two-messages", rc.enc_someip(s, 2, 3, 4, 1, 0x01, 0, b"ab") + _sd(11, [("find", s, 1, 1, 3, 0, (), ())])))
    out.append(("sd-stop-subscribe", _sd(12, [("subscribe", s, 1, 1, 0, 5, (v4,), ())])))
    # two SD messages in one datagram: damaging the first must not cost the second
    out.append(("two-sd-messages", _sd(13, [("offer", s, 2, 1, 3, 0, (v4,), ())]) + _sd(14, [("offer", s, 1, 1, 3, 0, (v4,), ())])))
    # an SD message without entries whose options array is not empty (nothing refers to the options; they are decoded
    # and validated all the same)
    out.append(("sd-options-without-entries", rc.enc_someip(0xFFFF, 0x8100, 0, 15, 1, 2, 0, rc.enc_sd(0xC0, [], [v4, cfg]))))
    return out


def structure(data: bytes):
    """offsets of structural bytes and of configuration-string bytes of a (valid) datagram"""
    structural = set()
    cfg_text = set()
    regions = []  # (start, end) of structural regions: messages, entries, options
    off = 0
    while off + 16 <= len(data):
        length = rc.be(data[off + 4:off + 8])
        end = off + 8 + length
        structural.update(range(off + 4, off + 8))
        structural.update(range(off + 12, off + 16))
        regions.append((off, min(end, len(data))))
        m = dict(service=rc.be(data[off:off + 2]), method=rc.be(data[off + 2:off + 4]))
        if m["service"] == 0xFFFF and m["method"] == 0x8100 and end <= len(data):
            p = off + 16
            structural.add(p)
            structural.update(range(p + 4, p + 8))
            elen = rc.be(data[p + 4:p + 8])
            e0 = p + 8
            for e in range(e0, e0 + elen, 16):
                structural.update(range(e, e + 4))
                structural.update((e + 12, e + 13))
                regions.append((e, e + 16))
            o = e0 + elen
            structural.update(range(o, o + 4))
            olen = rc.be(data[o:o + 4])
            q = o + 4
            while q + 3 <= o + 4 + olen:
                ln = rc.be(data[q:q + 2])
                structural.update(range(q, q + 4))
                regions.append((q, q + 3 + ln))
                typ = data[q + 2]
                if typ == 1:
                    r = q + 4
                    while r < q + 3 + ln:
                        structural.add(r)
                        n = data[r]
                        if n == 0:
                            break
                        cfg_text.update(range(r + 1, r + 1 + n))
                        r += 1 + n
                elif typ in (0x04, 0x14, 0x24):
                    structural.update((q + 8, q + 9))
                elif typ in (0x06, 0x16, 0x26):
                    structural.update((q + 20, q + 21))
                q += 3 + ln
        off = end
    return structural, cfg_text, regions


LEN32 = (0, 1, 16, 0x7FFFFFFF, 0xFFFFFFFF)


def mutations(data: bytes, level="full"):
    """the finite 1-mutation neighbourhood of a seed (yields (kind, bytes)); deterministic order,
    simplest first"""
    structural, cfg_text, regions = structure(data)
    n = len(data)
    yield ("seed", data)
    for i in range(n):
        yield (f"truncate@{i}", data[:i])
    for i in range(n):
        b = data[i]
        if i in structural:
            vals = range(256)
        else:
            vals = sorted({0, 1, 0x7F, 0x80, 0xFF, b ^ 1, b ^ 0x80} | {b ^ (1 << k) for k in range(8)})
        for v in vals:
            if v != b:
                yield (f"byte@{i}={v:#x}", data[:i] + bytes([v]) + data[i + 1:])
    for i in range(n + 1):
        for v in (0x00, 0xFF):
            yield (f"insert@{i}={v:#x}", data[:i] + bytes([v]) + data[i:])
    for a, b in regions:
        yield (f"remove[{a}:{b}]", data[:a] + data[b:])
        yield (f"duplicate[{a}:{b}]", data[:b] + data[a:b] + data[b:])
    # every 32-bit length word
    off = 0
    words = []
    while off + 16 <= n:
        words.append(off + 4)
        length = rc.be(data[off + 4:off + 8])
        if rc.be(data[off:off + 2]) == 0xFFFF and off + 8 + length <= n:
            p = off + 16
            words.append(p + 4)
            words.append(p + 8 + rc.be(data[p + 4:p + 8]))
        off += 8 + length
    for w in words:
        cur = rc.be(data[w:w + 4])
        for v in sorted(set(LEN32) | {max(cur - 1, 0), cur + 1, max(cur - 16, 0), cur + 16}):
            if v != cur and w + 4 <= n:
                yield (f"len32@{w}={v:#x}", data[:w] + rc.tobe(v & 0xFFFFFFFF, 4) + data[w + 4:])
    for i in sorted(cfg_text):
        for v in (0x80, 0xC3, 0xFF):
            yield (f"nonascii@{i}={v:#x}", data[:i] + bytes([v]) + data[i + 1:])


def mutations2(data: bytes):
    """2-mutation neighbourhood restricted to structural bytes: every pair of structural positions x a
    16-value set each (thorough tier)"""
    structural, _, _ = structure(data)
    pos = sorted(p for p in structural if p < len(data))

    def vals(b):
        return sorted({0, 1, 2, 3, 4, 0x0F, 0x10, 0x7F, 0x80, 0xC0, 0xFE, 0xFF, b ^ 1, b ^ 0x80, (b + 1) & 0xFF, (b - 1) & 0xFF} - {b})

    for a in range(len(pos)):
        i = pos[a]
        for va in vals(data[i]):
            d1 = data[:i] + bytes([va]) + data[i + 1:]
            for b in range(a + 1, len(pos)):
                j = pos[b]
                for vb in vals(data[j]):
                    yield (f"byte@{i}={va:#x}+byte@{j}={vb:#x}", d1[:j] + bytes([vb]) + d1[j + 1:])


def short_strings(maxlen=2):
    yield b""
    for a in range(256):
        yield bytes([a])
    if maxlen >= 2:
        for a in range(256):
            for b in range(256):
                yield bytes([a, b])
