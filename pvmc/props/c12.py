"""C12 - FindService is answered only by matching, ready instances, by unicast, in time (E3 x E2).

Every wildcard combination of a FindService entry x channel is delivered through
datagram_received at every timer instant discovered from the run (-eps, pre, post, +eps), also
after a stop, in the iteration of the stop and after a restart; the answers on the wire are
compared with a reference matcher and a time window."""
from __future__ import annotations

import dataclasses
import ipaddress
import itertools

import someip.config as cfg_
import someip.header as hdr
import someip.sd as sd

from .. import core, e2, refcodec
from ..world import MCAST, Choice, RandomSeam, make_sd, timings
from .c10 import timeline

REQ = ("192.0.2.71", 30490)
C = 2.0 ** -7
W = (0xFFFF, 0xFF, 0xFFFFFFFF)


def sids(seed):
    s = 0x5000 + seed % 0xA000
    return s, s + 1


def instance_sets(s, s2):
    return {
        "A": [(s, 1, 1, 0, True)],
        "B": [(s, 1, 1, 0, True), (s, 2, 1, 0, True)],
        "C": [(s, 1, 1, 0, True), (s, 1, 2, 1, True), (s2, 1, 1, 0, True)],
        "D": [(s, 1, 1, 0, True), (s, 2, 1, 0, False)],
    }


def find_menu(s, s2, reduced=False):
    if reduced:
        return [(s, 0xFFFF, 0xFF, 0xFFFFFFFF), (s, 1, 1, 0), (s, 2, 0xFF, 0xFFFFFFFF), (s2, 0xFFFF, 0xFF, 0xFFFFFFFF)]
    return list(itertools.product((s, s2), (1, 2, 0xFFFF), (1, 2, 0xFF), (0, 1, 0xFFFFFFFF)))


def ref_matches(inst, f):
    """wildcards only on the request side"""
    if inst[0] != f[0]:
        return False
    return all(f[k] == W[k - 1] or f[k] == inst[k] for k in (1, 2, 3))


class Sys(e2.DevSys):
    place_until = 2.6
    tail = 1.0

    def setup(self, cfg):
        self.s, self.s2 = cfg["sids"]
        lo, hi = cfg["window"]
        self.d = lo + (hi - lo) * cfg["frac"]
        self.rr = cfg["rr"]
        self.rrd = self.rr[0] + (self.rr[1] - self.rr[0]) * cfg["frac"]
        self.seam = RandomSeam(Choice(default=cfg["frac"]))
        self.seam.__enter__()
        self.t = timings(INITIAL_DELAY_MIN=lo, INITIAL_DELAY_MAX=hi, REPETITIONS_MAX=1, REPETITIONS_BASE_DELAY=0.125,
                         CYCLIC_OFFER_DELAY=1, ANNOUNCE_TTL=cfg["ttl"], SEND_COLLECTION_TIMEOUT=cfg["collect"],
                         REQUEST_RESPONSE_DELAY_MIN=self.rr[0], REQUEST_RESPONSE_DELAY_MAX=self.rr[1])
        self.t_nc = dataclasses.replace(self.t, CYCLIC_OFFER_DELAY=0)
        self.prot = make_sd(self.loop, self.t)
        self.specs = instance_sets(self.s, self.s2)[cfg["set"]]
        self.insts = []
        for n, (sid, iid, major, minor, cyclic) in enumerate(self.specs):
            opts = (hdr.IPv4EndpointOption(ipaddress.IPv4Address("192.0.2.1"), hdr.L4Protocols.UDP, 30500 + n),)
            # earlier in this process another description of the same service ids, with another endpoint, was
            # turned into an offer entry (e.g. the configuration before a reconfiguration): must not matter
            old = (hdr.IPv4EndpointOption(ipaddress.IPv4Address("192.0.2.200"), hdr.L4Protocols.TCP, 20500 + n),)
            cfg_.Service(sid, iid, major, minor, options_1=old, eventgroups=frozenset({5})).create_offer_entry(cfg["ttl"])
            cfg_.Service(sid, iid, major, minor, options_1=old, eventgroups=frozenset({5})).create_offer_entry()
            inst = sd.ServiceInstance(cfg_.Service(sid, iid, major, minor, options_1=opts, eventgroups=frozenset({5})),
                                      sd.ServerServiceListener(), self.prot.announcer, self.t if cyclic else self.t_nc)
            self.insts.append(inst)
            self.prot.announcer.announce_service(inst)
        self.started = True
        self.run_start = 0.0
        self.stopped_at = None
        self.finds = []  # (time, pos, channel, fields, ready flags per instance)
        self.session = 0
        self.cur = None
        self.prot.announcer.start()

    def close(self):
        self.seam.__exit__(None, None, None)
        super().close()

    def before_action(self, dev):
        self.cur = dev

    def actions(self):
        c = self.cfg
        acts = []
        nfind = len(self.finds)
        if nfind == 0:
            for f in c["finds"]:
                for ch in (0, 1):
                    acts.append(("find", ch) + tuple(f))
        elif nfind == 1 and c.get("lifecycle") and self.started and self.stopped_at is not None:
            # a second request from the same requester after a stop and a restart
            acts.append(("find", 0) + tuple(c["finds"][0]))
        elif nfind == 1 and c.get("lifecycle") and self.started and self.stopped_at is None and self.finds[0][1] == 1:
            # a unicast request while the answer to a multicast request may still be pending
            acts.append(("find", 0) + tuple(c["finds"][0]))
        if c.get("lifecycle") and nfind == 1 and not any(e == "evidence" for e in getattr(self, "extra", ())):
            # an SD message from the requester that reveals its reboot, while an answer to it may be pending / collected
            acts.append(("evidence", 0))
            if "nack-sub" not in getattr(self, "extra", ()):
                acts.append(("nack-sub", 0))  # ... and a Subscribe of the requester that is refused (unknown eventgroup)
            if "svc-add" not in getattr(self, "extra", ()) and self.started:
                acts.append(("svc-add", 0))  # ... and the application announces one more, unrelated, instance
        if c.get("lifecycle") and nfind == 0:
            if self.started:
                acts += [("ann-stop",), ("stop+find", 0), ("stop+find", 1), ("connlost",)]
            else:
                acts += [("ann-start",)]
        elif c.get("lifecycle"):
            acts += [("ann-stop",), ("connlost",)] if self.started else [("ann-start",)]
        if c.get("lifecycle") and len(self.specs) >= 2 and self.started and nfind <= 1:
            # one of several instances is withdrawn (the others go on and must go on answering)
            acts += [("svc-stop", n) for n in range(len(self.specs)) if n not in getattr(self, "inst_stopped", {})]
        return acts

    def ready(self, n, t):
        """instance n has queued its first offer strictly before t (and is running)"""
        if not self.started or n in getattr(self, "inst_stopped", {}):
            return False
        r = self.loop._clock_resolution
        return self.run_start + self.d < t - r

    def _find(self, ch, f):
        now = self.loop.time()
        self.session += 1
        self.finds.append((now, ch, tuple(f), [self.ready(n, now) for n in range(len(self.specs))]))
        data = refcodec.sd_message(self.session, [("find", f[0], f[1], f[2], 3, f[3], (), ())])
        self.prot.datagram_received(data, REQ, bool(ch))

    def do(self, act):
        ann = self.prot.announcer
        now = self.loop.time()
        if act[0] == "find":
            self._find(act[1], act[2:])
        elif act[0] == "ann-stop":
            self.started = False
            self.stopped_at = now
            ann.stop()
        elif act[0] == "ann-start":
            self.started = True
            self.run_start = now
            ann.start()
        elif act[0] == "connlost":
            self.started = False
            self.stopped_at = now
            self.prot.connection_lost(None)
        elif act[0] == "svc-add":
            self.extra = getattr(self, "extra", ()) + ("svc-add",)
            extra_inst = sd.ServiceInstance(cfg_.Service(self.s2 + 5, 9, 1, 0, eventgroups=frozenset({5})), sd.ServerServiceListener(),
                                            self.prot.announcer, self.t)
            self.prot.announcer.announce_service(extra_inst)
        elif act[0] == "nack-sub":
            self.extra = getattr(self, "extra", ()) + ("nack-sub",)
            self.session += 1
            sp = self.specs[0]
            data = refcodec.sd_message(self.session, [("subscribe", sp[0], sp[1], sp[2], 3, 99, (refcodec.v4("192.0.2.71", 4071),), ())])
            self.prot.datagram_received(data, REQ, False)
        elif act[0] == "svc-stop":
            self.inst_stopped = dict(getattr(self, "inst_stopped", {}))
            self.inst_stopped[act[1]] = now
            ann.stop_announce_service(self.insts[act[1]])
        elif act[0] == "evidence":
            self.extra = getattr(self, "extra", ()) + ("evidence",)
            data = refcodec.sd_message(self.session, [])  # the session id of the request again, reboot flag set
            self.prot.datagram_received(data, REQ, bool(self.finds[-1][1]))
        elif act[0] == "stop+find":
            # the FindService arrives in the same loop iteration, right after stop() was called
            self.started = False
            self.stopped_at = now
            ann.stop()
            self._find(act[1], (self.s, 0xFFFF, 0xFF, 0xFFFFFFFF))

    def judge(self):
        if self.exceptions:
            return
        cfg = self.cfg
        c = cfg["collect"]
        r = self.loop._clock_resolution
        # unicast offers on the wire
        uni = []
        for t, it, data, addr in self.prot.transport.sent:
            try:
                msgs = refcodec.dec_sd_datagram(data)
            except refcodec.RefError as e:
                self.viol("wire", "undecodable", f"datagram at {t}: {e}")
                continue
            for m in msgs:
                first = True
                for e in m["entries"]:
                    if e[0] == "offer" and addr != MCAST:
                        uni.append((t, addr, e, first))
                    first = False
        expected = []
        for (t, ch, f, ready) in self.finds:
            for n, spec in enumerate(self.specs):
                if not ready[n] or not ref_matches(spec, f):
                    continue
                if ch == 0:
                    lo = hi = t
                else:
                    lo = hi = t + self.rrd
                # a stop between the request and the moment the answer leaves cancels it or not (C10
                # decides that it must not follow the StopOffer); it is not required here
                st = self.stopped_at
                sn = getattr(self, "inst_stopped", {}).get(n)
                if sn is not None and t - r <= sn <= hi + c + r:
                    expected.append((n, lo, hi + c, "maybe"))
                    continue
                if st is not None and t - r <= st <= hi + c + r:
                    expected.append((n, lo, hi + c, "maybe"))
                    continue
                expected.append((n, lo, hi + c, "must"))
        got = list(uni)
        for g in list(got):
            # nothing may be answered during an initial wait phase, not even a request from before a restart
            if self.started and self.run_start > 0 and self.run_start - r <= g[0] < self.run_start + self.d - r:
                got.remove(g)
                self.viol("answer", "during-initial-wait", f"unicast offer {g[:2]} left during the initial wait phase that "
                          f"began at {self.run_start} (first offer due at {self.run_start + self.d}); finds {self.finds}")
        for n, lo, hi, mode in expected:
            spec = self.specs[n]
            hit = None
            mine = [g for g in got if (g[2][1], g[2][2], g[2][3]) == (spec[0], spec[1], spec[2]) and g[1] == REQ]
            inwin = [g for g in mine if lo - r <= g[0] <= hi + r]
            if inwin:
                hit = inwin[0]
            elif mine and mode == "must" and len(self.finds) == 1:
                hit = mine[0]  # right answer at the wrong time: reported as a time violation below
            if hit is None:
                if mode == "must":
                    self.viol("answer", "missing", f"instance {spec[:4]} did not answer; finds {self.finds}; unicast offers {uni}")
                continue
            got.remove(hit)
            t, addr, e, first = hit
            want_opts = (refcodec.v4("192.0.2.1", 30500 + n),)
            if e[4] != cfg["ttl"] or e[5] != spec[3] or e[6] != want_opts or e[7] != ():
                self.viol("answer", "content", f"instance {spec[:4]} answered with {e}")
            ok = lo - r <= t <= hi + r
            if ok and first and c and mode == "must" and len(self.finds) == 1 and not getattr(self, "inst_stopped", {}):
                # (... or when another instance's stop flushed the queue the answer was waiting in)
                # (an answer still in the send collector when the instance stops is flushed: earlier is fine; with two
                # requests an answer may join the collection period the other answer opened and leave earlier, too)
                ok = abs(t - hi) < r
            if not ok:
                self.viol("answer", "time", f"instance {spec[:4]}: answer on the wire at {t}, expected "
                          f"{'exactly ' + str(hi) if first else 'within ' + str((lo, hi))}; finds {self.finds}")
        for g in got:
            e = g[2]
            disc = "other-destination" if g[1] != REQ else "unexpected"
            which = [n for n, spec in enumerate(self.specs) if (e[1], e[2], e[3]) == spec[:3]]
            if which and self.finds:
                n = which[0]
                f = self.finds[0]
                if not ref_matches(self.specs[n], f[2]):
                    disc = "non-matching-instance"
                elif not f[3][n]:
                    disc = "not-ready-instance"
                else:
                    disc = "duplicate"
            self.viol("answer", disc, f"unexpected unicast offer {g[:3]}; finds {self.finds}")

    def outcome(self):
        n = sum(1 for x in self.prot.transport.sent if x[3] != MCAST)
        return (n, len(self.finds), self.started)


def cfgs(ctx):
    s, s2 = sids(ctx.seed)
    full = find_menu(s, s2)
    red = find_menu(s, s2, reduced=True)
    out = []
    # full wildcard product at every instant of a fault-free run
    for set_, rr, frac, col in (("A", (2.0 ** -5, 2.0 ** -4), 0.0, 0), ("C", (2.0 ** -5, 2.0 ** -4), 1.0, C),
                                ("B", (0.0, 0.0), 0.0, C), ("D", (2.0 ** -5, 2.0 ** -4), 1.0, 0)):
        out.append(dict(sids=(s, s2), set=set_, window=(0.125, 0.25), frac=frac, rr=rr, collect=col, ttl=3,
                        finds=full, lifecycle=False))
    # lifecycle: stop / stop+find / connection loss / restart, reduced find menu
    for set_, rr, frac, col in itertools.product(("A", "D"), ((0.0, 0.0), (2.0 ** -5, 2.0 ** -4)), (0.0, 1.0), (0, C)):
        if rr == (0.0, 0.0) and frac == 1.0:
            continue
        out.append(dict(sids=(s, s2), set=set_, window=(0.125, 0.25), frac=frac, rr=rr, collect=col,
                        ttl=0xFFFFFF if set_ == "D" else 3, finds=red, lifecycle=True))
    if ctx.thorough:
        for set_, rr, frac, col in itertools.product("ABCD", ((0.0, 0.0), (2.0 ** -5, 2.0 ** -4)), (0.0, 1.0), (0, C)):
            out.append(dict(sids=(s, s2), set=set_, window=(0.0, 0.0) if set_ == "B" else (0.125, 0.25), frac=frac, rr=rr,
                            collect=col, ttl=3, finds=full, lifecycle=False))
    return out


def restrict(thorough, cfg, devs, p, k):
    if k == 1:
        if p[2][0] in ("ann-stop", "connlost", "stop+find", "svc-stop") and not thorough:
            return p[0] <= 1.3  # control events: every instant of the first 1.3 s
        return True
    if not cfg.get("lifecycle"):
        return False
    first = devs[0][2][0]
    if k == 2:
        if first == "svc-stop":
            return p[2][0] == "find" and p[0] - devs[0][0] <= 0.3
        if first in ("ann-stop", "connlost"):
            return p[2][0] in ("find", "ann-start") and p[0] - devs[0][0] <= (1.2 if thorough else 0.3)
        if first == "find":
            # a stop shortly after a find (while the delayed answer is pending)
            if p[2][0] in ("nack-sub", "svc-add") and not thorough:
                return p[0] - devs[0][0] <= 0.1 and devs[0][0] <= 1.3 and tuple(devs[0][2][2:]) == tuple(cfg["finds"][0])
            if p[2][0] in ("ann-stop", "connlost", "evidence", "svc-stop", "nack-sub", "svc-add"):
                return p[0] - devs[0][0] <= 0.1
            # a unicast request while the delayed answer to a multicast request is pending: its answer overtakes
            return p[2][0] == "find" and devs[0][2][1] == 1 and p[2][1] == 0 and p[0] - devs[0][0] <= 0.07 \
                and tuple(devs[0][2][2:]) == tuple(p[2][2:]) == tuple(cfg["finds"][0]) and p[1] == "pre" \
                and (thorough or devs[0][0] <= 1.3)
        return False
    if k == 4:
        return [d[2][0] for d in devs] == ["find", "ann-stop", "ann-start"] and p[2][0] == "find" \
            and cfg["frac"] == 0.0 and 0.125 < p[0] - devs[2][0] <= 0.3 and p[1] == "pre" \
            and tuple(devs[0][2][2:]) == tuple(cfg["finds"][0]) and devs[1][0] - devs[0][0] <= 0.01 \
            and (thorough or devs[0][0] <= 1.3)
    if k == 3:
        if [d[2][0] for d in devs] == ["find", "find"]:
            # ... and a stop after the overtaking answer, before the overtaken one is due
            return p[2][0] in ("ann-stop", "connlost") and p[0] - devs[0][0] <= 0.07
        if [d[2][0] for d in devs] == ["find", "ann-stop"]:
            # restart while the answer to an earlier request is still pending
            return p[2][0] == "ann-start" and p[0] - devs[1][0] <= 0.07
        return [d[2][0] for d in devs] == ["ann-stop", "ann-start"] and p[2][0] == "find" and p[0] - devs[1][0] <= 0.4 \
            and (thorough or tuple(p[2][2:]) in (tuple(cfg["finds"][0]), tuple(cfg["finds"][1])))
    return False


def many_finds(args):
    """many FindService entries for one requester inside one collection window (one SD message with N entries, a burst of
    N datagrams, unicast and multicast with a fixed response delay), three ready instances: every entry is answered by
    every matching instance, N x 3 offers reach the requester, none is lost in a full queue"""
    s, how, channel = args
    from ..vloop import VLoop
    viols = []
    n = 0
    for count in (1, 16, 17, 47, 48, 49, 50, 64, 97, 98, 150, 255):
        loop = VLoop().install()
        seam = RandomSeam(Choice(default=0.0))
        seam.__enter__()
        try:
            t = timings(INITIAL_DELAY_MIN=0, INITIAL_DELAY_MAX=0, REPETITIONS_MAX=0, REPETITIONS_BASE_DELAY=0.125,
                        CYCLIC_OFFER_DELAY=1, ANNOUNCE_TTL=3, SEND_COLLECTION_TIMEOUT=C,
                        REQUEST_RESPONSE_DELAY_MIN=2.0 ** -5, REQUEST_RESPONSE_DELAY_MAX=2.0 ** -5)
            prot = make_sd(loop, t)
            for iid in (1, 2, 3):
                opts = (hdr.IPv4EndpointOption(ipaddress.IPv4Address("192.0.2.1"), hdr.L4Protocols.UDP, 30500 + iid),)
                prot.announcer.announce_service(sd.ServiceInstance(
                    cfg_.Service(s, iid, 1, 0, options_1=opts, eventgroups=frozenset({5})), sd.ServerServiceListener(), prot.announcer, t))
            prot.announcer.start()
            loop.run_until(1.25)
            prot.transport.sent.clear()
            ent = ("find", s, 0xFFFF, 0xFF, 3, 0xFFFFFFFF, (), ())
            if how == "one-message":
                prot.datagram_received(refcodec.sd_message(1, [ent] * count), REQ, bool(channel))
            else:
                for k in range(count):
                    prot.datagram_received(refcodec.sd_message(1 + k, [ent]), REQ, bool(channel))
            loop.run_until(1.25 + 0.5)
            n += 1
            per = {1: 0, 2: 0, 3: 0}
            late = 0
            for tt, it, data, addr in prot.transport.sent:
                if addr != REQ:
                    continue
                for m in refcodec.dec_sd_datagram(data):
                    for e in m["entries"]:
                        if e[0] == "offer" and e[1] == s and e[4] != 0:
                            per[e[2]] = per.get(e[2], 0) + 1
                            if tt > 1.25 + (2.0 ** -5 if channel else 0) + C + 2 ** -10:
                                late += 1
            if any(v != count for v in per.values()) or late:
                viols.append(("answer", "missing-many-finds" if any(v < count for v in per.values()) else "count-many-finds",
                              f"{count} FindService entries ({how}, {'multicast' if channel else 'unicast'}) for three ready "
                              f"instances: unicast offers per instance {per}, expected {count} each; {late} late", count))
        except Exception as e:  # noqa: BLE001
            viols.append(("no-exception", f"many-finds-{type(e).__name__}", f"{count} finds ({how}): {type(e).__name__}: {e}", count))
        finally:
            seam.__exit__(None, None, None)
            loop.dispose()
    return n, viols


def check(ctx):
    import functools
    allc = cfgs(ctx)
    res, viols = e2.search(ctx, Sys, allc, 4, restrict=functools.partial(restrict, ctx.thorough))
    samples = core.Samples()
    s, s2 = sids(ctx.seed)
    mjobs = [(s, how, ch) for how in ("one-message", "burst") for ch in (0, 1)]
    nmany = 0
    for job, (k, mv) in zip(mjobs, core.pmap(many_finds, mjobs, 1)):
        nmany += k
        for clause, disc, detail, count in mv:
            viols.append(core.Violation(ctx.prop, clause, disc, dict(many_finds=list(job), count=count), detail=detail))
    samples.add(dict(cfg="set C", devs=[[1.375, "post", ["find", 1, s, 0xFFFF, 2, 0xFFFFFFFF]]]), "wildcard find, multicast")
    samples.add(dict(cfg="set A lifecycle", devs=[[1.0, "pre", ["ann-stop"]], [1.0 + 2 ** -10, "pre", ["ann-start"]],
                                                  [1.125, "pre", ["find", 0, s, 1, 1, 0]]]), "find after restart")
    cov = dict(
        states=res.runs, transitions=res.runs, traces_validated_against_impl=res.runs, samples=samples.out(),
        runs=res.runs, runs_by_deviation_count=res.by_level, deviation_bound_completed=res.completed_k,
        configurations=len(allc), placements_discovered=res.instants, distinct_outcomes=len(res.outcomes),
        find_variants=len(find_menu(s, s2)) * 2, many_finds_cases=nmany, caps_hit=[res.capped] if res.capped else [],
        exhaustive=res.capped is None,
        note="a run holds one FindService, or two in the patterns find-stop-start-find and multicast find-unicast find(-stop); k counts placed events (find, stop, start)",
    )
    return core.finish(ctx, "model_checking", cov, viols, [
        "an answer that is pending (delayed or in the send collector) when the instance stops may or may not leave "
        "(C10 decides that it must not follow the StopOffer); it is not required here",
        "random.uniform is an explorer choice over {min, max}",
    ])


def replay(ctx, body):
    if "many_finds" in body["case"]:
        n, mv = many_finds(tuple(body["case"]["many_finds"]))
        for v in mv:
            print("FAILS:", v[:3])
        return 1 if mv else 0
    return e2.replay_case(Sys, body)
