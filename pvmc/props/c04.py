"""C04 - two SD stacks converge: offers are discovered, subscriptions established (E2).

Two real ServiceDiscoveryProtocol stacks on one virtual loop: A offers a service with one
eventgroup (recording server listener), B watches it with find_subscribe_eventgroup (plus a
recording client listener).  Every sendto is handed to an explorer-owned network that delivers it
to the peer's unicast or multicast entry as a callback of the next loop iteration (FIFO) unless a
disturbance says otherwise.  Disturbances are placed at every timer instant discovered from the run
so far (-eps, pre, post, +eps)."""
from __future__ import annotations

import functools
import ipaddress

import someip.config as cfg_
import someip.header as hdr
import someip.sd as sd

from .. import core, e2
from ..vloop import FakeTransport
from ..world import MCAST, Choice, ClientRec, RandomSeam, ServerRec, timings

INF = 0xFFFFFF
ADDR = {"A": ("192.0.2.1", 30490), "B": ("192.0.2.2", 30490)}
C = 2.0 ** -7


def sid_for(seed):
    return 0x0A00 + seed % 0x7000


class Stack:
    def __init__(self, name):
        self.name = name
        self.alive = False
        self.started = False
        self.prot = None
        self.log = []
        self.incarnation = 0


class Sys(e2.DevSys):
    place_until = 3.0
    # also: in the iteration in which the datagrams sent by the timers of an instant are delivered, after the delivery
    extra_positions = ("post+1",)

    def setup(self, cfg):
        self.sid = cfg["sid"]
        self.ttl = cfg["ttl"]
        self.finite = self.ttl != INF
        self.seam = RandomSeam(Choice(default=cfg["frac"]))
        self.seam.__enter__()
        ini = cfg.get("initial", (0.125, 0.25))
        self.t = timings(INITIAL_DELAY_MIN=ini[0], INITIAL_DELAY_MAX=ini[1], REPETITIONS_MAX=1, REPETITIONS_BASE_DELAY=0.125,
                         CYCLIC_OFFER_DELAY=1, ANNOUNCE_TTL=self.ttl, SUBSCRIBE_TTL=self.ttl, FIND_TTL=3,
                         SUBSCRIBE_REFRESH_INTERVAL=cfg["refresh"], SEND_COLLECTION_TIMEOUT=cfg["collect"],
                         REQUEST_RESPONSE_DELAY_MIN=2.0 ** -6, REQUEST_RESPONSE_DELAY_MAX=2.0 ** -5)
        self.stacks = {"A": Stack("A"), "B": Stack("B")}
        self.loss = False
        self.dup_next = 0
        self.hold_next = False
        self.held = None
        self.last_end = 0.0
        self.tail = (self.ttl if self.finite else 3) + 1 + 0.25 + 4.5
        self.wire = 0
        self.wirelog = []
        self.sent_by = {}
        self.seen = {}
        self.boot("A")
        self.boot("B")
        if cfg.get("uptime"):
            # both stacks have been running for a long time: the offerer has sent `uptime` multicast messages (its real
            # counter is advanced by that many real calls), the watcher has seen the last of them
            n = cfg["uptime"]
            ssa = self.stacks["A"].prot.session_storage
            for _ in range(n):
                ssa.assign_outgoing(None)  # (None is the multicast group's key)
            self.stacks["B"].prot.session_storage.check_received(ADDR["A"], True, True, n)

    def close(self):
        self.seam.__exit__(None, None, None)
        super().close()

    # -- processes -------------------------------------------------------------------------
    def boot(self, name):
        st = self.stacks[name]
        st.incarnation += 1
        st.log = []
        prot = sd.ServiceDiscoveryProtocol(MCAST, timings=self.t)
        prot.transport = FakeTransport(self.loop, sockname=ADDR[name], sink=functools.partial(self.net_send, name, st.incarnation))
        st.prot = prot
        if name == "A":
            st.listener = ServerRec(f"A{st.incarnation}", st.log, self.loop)
            opts = (hdr.IPv4EndpointOption(ipaddress.IPv4Address("192.0.2.1"), hdr.L4Protocols.UDP, 30501),)
            st.instance = sd.ServiceInstance(cfg_.Service(self.sid, 1, 1, 0, options_1=opts, eventgroups=frozenset({5})),
                                             st.listener, prot.announcer, self.t)
            prot.announcer.announce_service(st.instance)
        else:
            st.listener = ClientRec(f"B{st.incarnation}", st.log, self.loop)
            prot.discovery.watch_service(cfg_.Service(self.sid), st.listener)
            prot.discovery.find_subscribe_eventgroup(
                cfg_.Eventgroup(self.sid, 0xFFFF, 0xFF, 5, ("192.0.2.2", 3000), hdr.L4Protocols.UDP))
        st.alive = True
        st.started = True
        prot.start()

    def crash(self, name):
        st = self.stacks[name]
        st.alive = False
        st.started = False
        st.prot.transport.mute = True
        st.dead_log = st.log
        st.log = []
        try:
            st.prot.stop()  # lets the dead process' tasks end; whatever it emits goes nowhere
        except Exception:  # noqa: BLE001
            pass

    # -- network ----------------------------------------------------------------------------
    def net_send(self, src, incarnation, data, addr, transport):
        st = self.stacks[src]
        if not st.alive or st.incarnation != incarnation:
            return
        self.wire += 1
        self.sent_by[(src, incarnation)] = self.sent_by.get((src, incarnation), 0) + 1
        self.wirelog.append((self.loop.time(), src, addr, data, self.loss))
        if self.loss:
            return
        item = (src, data, addr, incarnation)
        if self.hold_next and self.held is None:
            self.hold_next = False
            self.held = item
            self.loop.call_later(0.5, self.release_held)
            return
        copies = 1
        if self.dup_next:
            self.dup_next -= 1
            copies = 2
        for _ in range(copies):
            self.loop.call_soon(self.deliver, item)
        if self.held is not None:
            self.release_held()

    def release_held(self):
        if self.held is not None:
            item, self.held = self.held, None
            self.loop.call_soon(self.deliver, item)

    def deliver(self, item):
        src, data, addr, src_inc = item
        for name, st in self.stacks.items():
            if name == src or not st.alive:
                continue
            if addr == MCAST:
                self.seen.setdefault((name, st.incarnation), set()).add((src, src_inc, True))
                st.prot.datagram_received(data, ADDR[src], True)
            elif addr == ADDR[name]:
                self.seen.setdefault((name, st.incarnation), set()).add((src, src_inc, False))
                st.prot.datagram_received(data, ADDR[src], False)

    # -- disturbances -------------------------------------------------------------------------
    def actions(self):
        acts = []
        for name, st in sorted(self.stacks.items()):
            if st.alive:
                acts.append(("stop", name) if st.started else ("start", name))
                if st.started:
                    acts.append(("bounce", name))  # graceful stop and start with no loop iteration in between
                    if self.finite and not self.loss:
                        acts.append(("stop-lost", name))  # graceful stop whose farewell datagrams are lost
                for gap in (0.0, 0.5, 4.0):
                    acts.append(("crash-restart", name, gap))
                if self.finite:
                    acts.append(("crash", name))
            elif self.finite and not getattr(st, "restart_pending", False):
                acts.append(("restart", name))
        if not self.loss:
            acts.append(("dup",))
            if self.finite:
                acts.append(("reorder",))
                acts.append(("loss", 0.25))
                acts.append(("loss", 1.5))
        return acts

    def do(self, act):
        now = self.loop.time()
        self.last_end = max(self.last_end, now)
        if act[0] == "stop":
            st = self.stacks[act[1]]
            st.started = False
            st.prot.stop()
        elif act[0] == "start":
            st = self.stacks[act[1]]
            st.started = True
            st.prot.start()
        elif act[0] == "stop-lost":
            st = self.stacks[act[1]]
            st.started = False
            self.loss = True
            self.last_end = max(self.last_end, now + 4 * C)
            st.prot.stop()
            self.loop.call_later(4 * C, self.loss_off)
        elif act[0] == "bounce":
            st = self.stacks[act[1]]
            st.prot.stop()
            st.prot.start()
        elif act[0] == "crash":
            self.crash(act[1])
        elif act[0] == "restart":
            self.boot(act[1])
        elif act[0] == "crash-restart":
            self.crash(act[1])
            st = self.stacks[act[1]]
            st.restart_pending = True
            self.last_end = max(self.last_end, now + act[2])

            def again(name=act[1]):
                self.stacks[name].restart_pending = False
                self.boot(name)

            if act[2] == 0.0:
                again()
            else:
                self.loop.call_later(act[2], again)
        elif act[0] == "dup":
            self.dup_next = 1
        elif act[0] == "reorder":
            self.hold_next = True
        elif act[0] == "loss":
            self.loss = True
            self.last_end = max(self.last_end, now + act[1])
            self.loop.call_later(act[1], self.loss_off)

    def loss_off(self):
        self.loss = False

    # -- oracle ----------------------------------------------------------------------------------
    def view_at(self, name, t):
        """latest notification per key before or at t of the current incarnation's listener"""
        st = self.stacks[name]
        view = {}
        for rec in st.log:
            if rec[0] <= t:
                o = rec[4]
                if hasattr(o, "endpoints"):  # EventgroupSubscription: identity excludes ttl and extra options
                    ident = (o.service_id, o.instance_id, o.major_version, o.id, o.counter,
                             tuple(sorted(repr(e) for e in o.endpoints)))
                else:
                    ident = (o.service_id, o.instance_id, o.major_version, o.minor_version)
                view[(ident, rec[5])] = rec[3]
        return view

    def judge(self):
        a, b = self.stacks["A"], self.stacks["B"]
        horizon = self.loop.time()
        self.outside = False
        if not self.finite:
            # side condition of the statement for infinite TTLs: a restarted peer sends at least one SD
            # message; a run in which a restarted incarnation stayed silent is outside the quantifier
            for name, st in self.stacks.items():
                for inc in range(2, st.incarnation + 1):
                    if self.sent_by.get((name, inc), 0) == 0:
                        self.outside = True
            if self.outside:
                return
        deadline = self.last_end + (self.ttl if self.finite else 3) + 1 + 0.25
        offering = a.alive and a.started
        b_running = b.alive and b.started

        def undetectable(rx, tx):
            """the current incarnation of rx cannot have detected the reboot of tx: on no channel did it
            hear both an earlier and the current incarnation of tx (reboot detection is per channel)"""
            r, t = self.stacks[rx], self.stacks[tx]
            if self.finite or t.incarnation == 1:
                return False
            heard = self.seen.get((rx, r.incarnation), ())
            return not any((tx, t.incarnation, mc) in heard and any((tx, i, mc) in heard for i in range(1, t.incarnation))
                           for mc in (True, False))

        sfx_a = "-peer-reboot-undetectable-per-channel" if undetectable("B", "A") else ""
        sfx_b = "-peer-reboot-undetectable-per-channel" if undetectable("A", "B") else ""
        for when, label in ((min(deadline, horizon), "one TTL + one cyclic period after the last disturbance"),
                            (horizon, "the horizon")):
            if b.alive:
                v = self.view_at("B", when)
                offered = [k for k, kind in v.items() if kind == "offered" and k[1] == ADDR["A"]]
                if offering and not offered:
                    self.viol("watcher-view", "not-offered-while-offering" + sfx_a,
                              f"at {label} (t={when}) A offers, B's listener does not report it offered (view {v})")
                if not offering and offered:
                    self.viol("watcher-view", "offered-while-not-offering" + sfx_a,
                              f"at {label} (t={when}) A does not offer, B's listener still reports {offered}")
            if a.alive:
                v = self.view_at("A", when)
                subs = [k for k, kind in v.items() if kind == "subscribed" and k[1] == ADDR["B"]]
                if offering and b_running and not subs:
                    disc = "not-subscribed" + (sfx_a if self.cfg["refresh"] is None else "")
                    self.viol("offerer-view", disc,
                              f"at {label} (t={when}) A offers and B runs, A's listener does not report B subscribed (view {v})")
                if not (offering and b_running) and subs:
                    self.viol("offerer-view", "subscribed-but-should-not" + sfx_b,
                              f"at {label} (t={when}) offering={offering} watcher running={b_running}, A's listener still "
                              f"reports {subs}")

    def outcome(self):
        a, b = self.stacks["A"], self.stacks["B"]
        return (a.alive, a.started, b.alive, b.started, getattr(self, "outside", False))


def cfgs(ctx):
    sid = sid_for(ctx.seed)
    out = []
    for frac in (0.0, 1.0):
        out.append(dict(sid=sid, name="T1-finite", ttl=3, refresh=2, collect=C, frac=frac))
        out.append(dict(sid=sid, name="T2-infinite-no-refresh", ttl=INF, refresh=None, collect=C, frac=frac))
        out.append(dict(sid=sid, name="T3-infinite-refresh", ttl=INF, refresh=2, collect=0, frac=frac))
        if frac == 0.0:
            # no initial delay: a stack that is stopped and started again has its StopOffer and its first new Offer in
            # one send-collection period
            out.append(dict(sid=sid, name="T5-infinite-no-refresh-no-initial-delay", ttl=INF, refresh=None, collect=C, frac=frac,
                            initial=(0.0, 0.0)))
        if frac == 0.0:
            # the offerer has been up for more than half of the session-id range when the disturbances begin
            out.append(dict(sid=sid, name="T6-infinite-no-refresh-long-uptime", ttl=INF, refresh=None, collect=C, frac=frac,
                            uptime=40000))
        if ctx.thorough:
            out.append(dict(sid=sid, name="T4-finite-short", ttl=2, refresh=1, collect=0, frac=frac))
    return out


def restrict(thorough, cfg, devs, p, k):
    if k <= 1:
        return True
    if k == 2:
        if thorough:
            return True
        # quick: second disturbance within 1.25 s of the first, process events only, one choice of delays
        return cfg["frac"] == 0.0 and cfg["name"] in ("T1-finite", "T2-infinite-no-refresh") and p[0] - devs[-1][0] <= 1.25 and p[2][0] in (
            "stop", "start", "crash-restart", "restart") and p[1] == "pre" and (
                devs[-1][2][0] != "stop-lost" or p[2][0] == "start")
    return False


def check(ctx):
    allc = cfgs(ctx)
    res, viols = e2.search(ctx, Sys, allc, 2, restrict=functools.partial(restrict, ctx.thorough))
    samples = core.Samples()
    samples.add(dict(cfg=allc[0], devs=[]), "fault-free run")
    samples.add(dict(cfg=allc[1], devs=[[1.25, "pre", ["crash-restart", "A", 0.5]]]), "offerer crashes and restarts, infinite TTL")
    samples.add(dict(cfg=allc[0], devs=[[1.0, "post", ["loss", 1.5]], [2.0, "pre", ["stop", "B"]]]), "loss window, then watcher stops")
    cov = dict(
        states=res.runs, transitions=res.runs, traces_validated_against_impl=res.runs, samples=samples.out(),
        runs=res.runs, runs_by_deviation_count=res.by_level, deviation_bound_completed=res.completed_k,
        configurations=len(allc), placements_discovered=res.instants, distinct_outcomes=len(res.outcomes),
        caps_hit=[res.capped] if res.capped else [], exhaustive=res.capped is None,
        note="every run goes to last disturbance + TTL + cyclic + 4.75 s; the views are judged at the convergence "
             "deadline and again at the horizon (must be stable)",
    )
    return core.finish(ctx, "model_checking", cov, viols, [
        "a stack does not receive its own multicast datagrams",
        "infinite-TTL configurations: no loss, no reordering, a crash is always followed by a restart (the statement's "
        "side conditions); finite-TTL configuration: all disturbances",
        "crash = transport deaf and mute, listeners detached, then stop() on the dead object; restart = fresh protocol "
        "object (fresh session storage) on the same address",
    ])


def replay(ctx, body):
    from .. import refcodec
    from ..e1 import untuple
    case = body["case"]
    s = Sys(untuple(case["cfg"]))
    try:
        for dev in case["devs"]:
            s.apply(tuple(untuple(dev)))
        s.run_to(max(s.place_until, s.last_end + s.tail))
        s.loop.settle()
        for t, src, addr, data, lost in s.wirelog:
            try:
                ents = [(e[0], e[4]) for m in refcodec.dec_sd_datagram(data) for e in m["entries"]]
                flags = [(m["session"], m["reboot"]) for m in refcodec.dec_sd_datagram(data)]
            except refcodec.RefError as e:
                ents, flags = str(e), None
            print(f"  t={t:<12} {src} -> {'mcast' if addr == MCAST else addr[0]:<10} {'LOST ' if lost else ''}{ents} session/reboot={flags}")
        for name in "AB":
            print(f"  listener {name}:", [(r[0], r[3]) for r in s.stacks[name].log])
    finally:
        s.close()
    return e2.replay_case(Sys, body)
