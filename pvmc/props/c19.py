"""C19 - service and eventgroup matching obeys the wildcard laws (engine E3).

Every ordered pair of descriptions over {2 concrete, wildcard, wildcard-1} per field, for
every matching function, against an independent field-wise matcher and the laws of the
statement."""
from __future__ import annotations

import ipaddress
import dataclasses
import itertools

import someip.config as cfg
import someip.header as hdr

from .. import core

W = (0xFFFF, 0xFF, 0xFFFFFFFF)


def domain(ctx):
    s = ctx.seed
    sids = (0x1000 + s % 0xE000, 0x1001 + s % 0xE000)
    inst = (1 + s % 0xF000, 2 + s % 0xF000, 0xFFFF, 0xFFFE)
    maj = (1 + s % 0xF0, 2 + s % 0xF0, 0xFF, 0xFE)
    mino = (s % 0xFFFF0000, 1 + s % 0xFFFF0000, 0xFFFFFFFF, 0xFFFFFFFE)
    # the other fields' wildcard constants where they fit the field's width (0xFF as an instance id or a
    # minor version, 0xFFFF as a minor version are ordinary concrete values)
    inst += (0x00FF,)
    mino += (0xFF, 0xFFFF)
    # values that differ from the first minor version by a carry into a neighbouring field's bits: a comparison done on
    # packed integers (or on concatenated bytes) with a wrong width confuses them with a difference in that field
    mino += (mino[0] + (1 << 24), mino[0] + (1 << 16))
    if ctx.thorough:
        inst += (0, 0x8000)
        maj += (0, 0x80)
        mino += (0x80000000,)
    return sids, inst, maj, mino


def ref_field(a, b, w, wild_a, wild_b):
    return a == b or (wild_a and a == w) or (wild_b and b == w)


def ref_match(a, b, wild_a, wild_b, fields=3):
    """a, b = (sid, inst, major, minor)"""
    if a[0] != b[0]:
        return False
    return all(ref_field(a[i + 1], b[i + 1], W[i], wild_a, wild_b) for i in range(fields))


OPT_A = hdr.IPv4EndpointOption(ipaddress.IPv4Address("192.0.2.1"), hdr.L4Protocols.UDP, 30501)
OPT_B = hdr.SOMEIPSDLoadBalancingOption(1, 2)
def run_of(k, base):
    """k distinct endpoint options (15 is the largest count an entry can carry per run)"""
    return tuple(hdr.IPv4EndpointOption(ipaddress.IPv4Address("192.0.2.1"), hdr.L4Protocols.UDP, base + i) for i in range(k))


OPTS = ((), (OPT_A,), (OPT_A, OPT_B), run_of(14, 31000), run_of(15, 32000))


def entry(kind, d, ttl=3, last=None):
    return hdr.SOMEIPSDEntry(sd_type=kind, service_id=d[0], instance_id=d[1], major_version=d[2],
                             ttl=ttl, minver_or_counter=d[3] if last is None else last)


def wire_forms(e):
    """the same entry as it comes off the wire: with option indexes assigned (options in a shared array), and parsed
    back from its bytes (options not resolved) - what an entry says does not depend on that"""
    lst = []
    assigned = e.assign_option_index(lst)
    parsed, rest = hdr.SOMEIPSDEntry.parse(assigned.build(), len(lst))
    return (("assigned", assigned), ("parsed", parsed))


def check(ctx):
    sids, inst, maj, mino = domain(ctx)
    descs = list(itertools.product(sids, inst, maj, mino))
    viols = []
    samples = core.Samples()
    n = 0
    nontrivial = set()
    outcomes = {}

    def bad(clause, disc, case, exp, got):
        viols.append(core.Violation(ctx.prop, clause, disc, case, expected=exp, observed=got,
                                    detail=f"{clause}: case={case} expected={exp} got={got}"))

    T = hdr.SOMEIPSDEntryType
    # (eventgroup ids have no wildcard: 0xFFFF and 0 are ordinary ids)
    egsets = (frozenset(), frozenset({5}), frozenset({5, 6}), frozenset({0xFFFF}), frozenset({0, 0xFF}), frozenset({0}), frozenset({7}))
    for a in descs:
        sa = cfg.Service(*a)
        conc_a = a[1] != W[0] and a[2] != W[1] and a[3] != W[2]
        for b in descs:
            sb = cfg.Service(*b)
            case = dict(a=a, b=b)
            # description vs description
            got = sa.matches_service(sb)
            exp = ref_match(a, b, True, True)
            n += 1
            outcomes[("svc", got)] = outcomes.get(("svc", got), 0) + 1
            if got != exp:
                bad("matches_service", "wrong-result", case, exp, got)
            if got != sb.matches_service(sa):
                bad("matches_service", "asymmetric", case, got, not got)
            # fields the laws do not mention (declared eventgroups, options) must not decide the result
            for ega, egb in ((frozenset({5}), frozenset()), (frozenset({5, 6}), frozenset({7})), (frozenset(), frozenset({5}))):
                g2 = cfg.Service(*a, eventgroups=ega, options_1=(OPT_A,)).matches_service(cfg.Service(*b, eventgroups=egb))
                n += 1
                if g2 != exp:
                    bad("matches_service", "depends-on-eventgroups-or-options", dict(a=a, b=b, eventgroups=(sorted(ega), sorted(egb))), exp, g2)
            # filter a vs offer entry b (wildcard honoured on the filter only)
            got_o = sa.matches_offer(entry(T.OfferService, b))
            exp_o = ref_match(a, b, True, False)
            n += 1
            outcomes[("offer", got_o)] = outcomes.get(("offer", got_o), 0) + 1
            if got_o != exp_o:
                bad("matches_offer", "wrong-result", case, exp_o, got_o)
            # a StopOffer (TTL 0), an offer / find with the infinite TTL: the TTL does not take part in matching
            for ttl in (0, 0xFFFFFF):
                n += 2
                if sa.matches_offer(entry(T.OfferService, b, ttl=ttl)) != exp_o:
                    bad("matches_offer", "depends-on-ttl", dict(a=a, b=b, ttl=ttl), exp_o, not exp_o)
                if sa.matches_find(entry(T.FindService, b, ttl=ttl)) != ref_match(a, b, False, True):
                    bad("matches_find", "depends-on-ttl", dict(a=a, b=b, ttl=ttl), ref_match(a, b, False, True), None)
            # the entry as it comes off the wire (option indexes instead of resolved options), with and without options
            for opts in ((), (OPT_A,)):
                eo = dataclasses.replace(entry(T.OfferService, b), options_1=opts)
                ef = entry(T.FindService, b)
                for form, (wo, wf) in zip(("assigned", "parsed"), zip((x[1] for x in wire_forms(eo)), (x[1] for x in wire_forms(ef)))):
                    n += 2
                    try:
                        r_o = sa.matches_offer(wo)
                        r_f = sa.matches_find(wf)
                    except Exception as ex:  # noqa: BLE001
                        bad("matches_offer", f"wire-form-raises-{type(ex).__name__}", dict(a=a, b=b, form=form, options=len(opts)),
                            exp_o, f"{type(ex).__name__}: {ex}")
                        continue
                    if r_o != exp_o:
                        bad("matches_offer", "wire-form-wrong-result", dict(a=a, b=b, form=form, options=len(opts)), exp_o, r_o)
                    if r_f != ref_match(a, b, False, True):
                        bad("matches_find", "wire-form-wrong-result", dict(a=a, b=b, form=form, options=len(opts)),
                            ref_match(a, b, False, True), r_f)
            # service a vs find entry b (wildcard honoured on the request only)
            got_f = sa.matches_find(entry(T.FindService, b))
            exp_f = ref_match(a, b, False, True)
            n += 1
            outcomes[("find", got_f)] = outcomes.get(("find", got_f), 0) + 1
            if got_f != exp_f:
                bad("matches_find", "wrong-result", case, exp_f, got_f)
            if got or got_o or got_f:
                nontrivial.add((a, b))
            # law: concrete service answers filter's find  <=>  filter accepts service's offer
            if conc_a:
                l1 = sa.matches_find(sb.create_find_entry())
                l2 = sb.matches_offer(sa.create_offer_entry())
                n += 1
                if l1 != l2:
                    bad("find-offer-duality", "differs", case, l2, l1)
            # monotonicity: widening a filter field never loses a match
            for i in range(3):
                aw = list(a)
                aw[i + 1] = W[i]
                saw = cfg.Service(*aw)
                n += 2
                if got and not saw.matches_service(sb):
                    bad("monotone", f"matches_service-field{i}", case, True, False)
                if got_o and not saw.matches_offer(entry(T.OfferService, b)):
                    bad("monotone", f"matches_offer-field{i}", case, True, False)
            # subscribe matching
            if b[3] == mino[0]:
                for egs in egsets:
                    sae = cfg.Service(*a, eventgroups=egs)
                    for req in (5, 7, 0xFFFF, 0):
                        for counter, ttl in ((0, 3), (3, 3), (0, 0), (15, 0xFFFFFF)):  # also StopSubscribe and the infinite TTL
                            e = entry(T.Subscribe, b, ttl=ttl, last=(counter << 16) | req)
                            g = sae.matches_subscribe(e)
                            x = ref_match(a, b, True, False, fields=2) and req in egs
                            n += 1
                            outcomes[("sub", g)] = outcomes.get(("sub", g), 0) + 1
                            if g != x:
                                bad("matches_subscribe", "wrong-result",
                                    dict(a=a, b=b, eventgroups=sorted(egs), requested=req, ttl=ttl, counter=counter), x, g)
            # eventgroup specialisation
            if a[3] == mino[0]:
                eg = cfg.Eventgroup(a[0], a[1], a[2], 5, ("192.0.2.9", 3000), hdr.L4Protocols.UDP)
                r = eg.for_service(sb)
                x = ref_match((a[0], a[1], a[2], W[2]), b, True, False)
                n += 1
                # the options a description carries (up to the largest count a run can hold) do not decide
                for o1, o2 in ((OPTS[4], ()), ((), OPTS[4]), (OPTS[3], OPTS[4])):
                    n += 1
                    try:
                        r2 = eg.for_service(dataclasses.replace(sb, options_1=o1, options_2=o2))
                    except Exception as ex:  # noqa: BLE001
                        bad("for_service", f"raises-{type(ex).__name__}", dict(a=a, b=b, n1=len(o1), n2=len(o2)), x, f"{type(ex).__name__}: {ex}")
                        continue
                    if r2 != r:
                        bad("for_service", "depends-on-options", dict(a=a, b=b, n1=len(o1), n2=len(o2)), repr(r), repr(r2))
                if (r is not None) != x:
                    bad("for_service", "accept", case, x, r is not None)
                elif r is not None:
                    if (r.instance_id, r.major_version, r.service_id, r.eventgroup_id, r.sockname, r.protocol) != (
                            b[1], b[2], a[0], 5, ("192.0.2.9", 3000), hdr.L4Protocols.UDP):
                        bad("for_service", "adopt", case, (b[1], b[2]), (r.instance_id, r.major_version))
        # conversions
        for o1 in OPTS:
            for o2 in OPTS:
                s = cfg.Service(*a, options_1=o1, options_2=o2, eventgroups=frozenset({5}))
                for ttl in (0, 3, 0xFFFFFF):
                    n += 1
                    try:
                        e = s.create_offer_entry(ttl)
                        back = cfg.Service.from_offer_entry(e)
                    except Exception as ex:  # noqa: BLE001
                        bad("offer-roundtrip", f"raises-{type(ex).__name__}", dict(a=a, ttl=ttl, n1=len(o1), n2=len(o2)), a,
                            f"{type(ex).__name__}: {ex}")
                        continue
                    ok = (back.service_id, back.instance_id, back.major_version, back.minor_version,
                          back.options_1, back.options_2) == (a[0], a[1], a[2], a[3], o1, o2)
                    ok = ok and (e.sd_type, e.service_id, e.instance_id, e.major_version, e.ttl,
                                 e.minver_or_counter, e.options_1, e.options_2) == (
                        T.OfferService, a[0], a[1], a[2], ttl, a[3], o1, o2)
                    if not ok:
                        bad("offer-roundtrip", "fields", dict(a=a, ttl=ttl, n1=len(o1), n2=len(o2)), a, repr(back))
        f = sa.create_find_entry(7)
        n += 1
        if (f.sd_type, f.service_id, f.instance_id, f.major_version, f.ttl, f.minver_or_counter,
                f.options_1, f.options_2) != (T.FindService, a[0], a[1], a[2], 7, a[3], (), ()):
            bad("find-entry", "fields", dict(a=a), a, repr(f))
    samples.add(dict(a=descs[0], b=descs[1]), "first pair")
    samples.add(dict(a=descs[-1], b=descs[5]), "a pair with wildcards")
    cov = dict(
        evaluations=n, distinct_nontrivial=len(nontrivial), exhaustive=True,
        rule="all ordered pairs of the 128 descriptions over {2 concrete, wildcard, wildcard-1} per field x "
             "{matches_service, matches_offer, matches_find, matches_subscribe (3 eventgroup sets x 2 requested x "
             "2 counters), Eventgroup.for_service, the duality and monotonicity laws}, plus conversions for every "
             "description x 3x3 option runs x 3 TTLs; a pair is non-trivial when at least one matcher accepts it",
        samples=samples.out(), descriptions=len(descs), pairs=len(descs) ** 2,
        outcome_classes={f"{k[0]}={k[1]}": v for k, v in sorted(outcomes.items())},
        domain=dict(service=sids, instance=inst, major=maj, minor=mino),
    )
    return core.finish(ctx, "exploration", cov, viols, [
        "the code compares fields only for equality with each other and with the wildcard constants, so two "
        "concrete representatives (rotating with VERIF_SEED) plus wildcard and wildcard-1 are representative",
    ])


def replay(ctx, body):
    case = body["case"]
    print("case:", case, "expected:", body.get("expected"), "observed:", body.get("observed"))
    a = tuple(case["a"])
    sa = cfg.Service(*a)
    T = hdr.SOMEIPSDEntryType
    if "n1" in case:
        # conversions / for_service with option runs of the given lengths
        o1 = next(o for o in OPTS[::-1] if len(o) == case["n1"])
        o2 = next(o for o in OPTS if len(o) == case["n2"])
        try:
            if "b" in case:
                eg = cfg.Eventgroup(a[0], a[1], a[2], 5, ("192.0.2.9", 3000), hdr.L4Protocols.UDP)
                sb = cfg.Service(*tuple(case["b"]))
                r, r2 = eg.for_service(sb), eg.for_service(dataclasses.replace(sb, options_1=o1, options_2=o2))
                print("for_service without options:", r, "with options:", r2)
                return 0 if r == r2 else 1
            s = cfg.Service(*a, options_1=o1, options_2=o2, eventgroups=frozenset({5}))
            back = cfg.Service.from_offer_entry(s.create_offer_entry(case.get("ttl", 3)))
            ok = (back.options_1, back.options_2) == (o1, o2)
            print("round trip keeps the option runs:", ok)
            return 0 if ok else 1
        except Exception as ex:  # noqa: BLE001
            print("FAILS:", type(ex).__name__, ex)
            return 1
    if "b" in case:
        b = tuple(case["b"])
        sb = cfg.Service(*b)
        res = [("matches_service", sa.matches_service(sb), ref_match(a, b, True, True)),
               ("matches_offer", sa.matches_offer(entry(T.OfferService, b)), ref_match(a, b, True, False)),
               ("matches_find", sa.matches_find(entry(T.FindService, b)), ref_match(a, b, False, True))]
        for name, got, ref in res:
            print(name, got, "ref", ref)
        if any(got != ref for _, got, ref in res):
            return 1
    # clauses that need more context than the case records (wire forms, eventgroup sets, laws): re-run the check
    print("re-run ./check C19 for the full evaluation of this case's clause:", body.get("signature"))
    return 1
