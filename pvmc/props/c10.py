"""C10 - offer lifecycle: wait, repetition and cyclic phases; nothing follows a StopOffer (E2).

Real code driven: ServiceAnnouncer + ServiceInstance inside a real ServiceDiscoveryProtocol
(start / stop / announce_service / stop_announce_service / connection_lost, FindService delivered
through datagram_received), and SimpleService.start_announce / stop_announce."""
from __future__ import annotations

import ipaddress
import itertools

import someip.config as cfg_
import someip.header as hdr
import someip.sd as sd
import someip.service as svc

from .. import core, e2, refcodec
from ..vloop import FakeTransport
from ..world import MCAST, Choice, RandomSeam, make_sd, timings

INF = 0xFFFFFF
REQ = ("192.0.2.61", 30490)
REQ2 = ("192.0.2.62", 30490)
C = 2.0 ** -7


def sid_for(seed):
    return 0x4000 + seed % 0xB000


def timeline(ts, d, reps, base, cyclic, until):
    q = ts + d
    out = [q]
    for i in range(reps):
        q += base * (2 ** i)
        out.append(q)
    if cyclic:
        while q + cyclic <= until:
            q += cyclic
            out.append(q)
    return [x for x in out if x <= until]


class Sys(e2.DevSys):
    place_until = 3.0
    tail = 2.5

    def setup(self, cfg):
        self.sid = cfg["sid"]
        lo, hi = cfg["window"]
        self.d = lo + (hi - lo) * cfg["frac"]
        self.rr = cfg.get("rr", (0.0, 0.0))
        self.rrd = self.rr[0] + (self.rr[1] - self.rr[0]) * cfg["frac"]
        self.seam = RandomSeam(Choice(default=cfg["frac"]))
        self.seam.__enter__()
        self.t = timings(INITIAL_DELAY_MIN=lo, INITIAL_DELAY_MAX=hi, REPETITIONS_MAX=cfg["reps"],
                         REPETITIONS_BASE_DELAY=0.125, CYCLIC_OFFER_DELAY=cfg["cyclic"], ANNOUNCE_TTL=cfg["ttl"],
                         SEND_COLLECTION_TIMEOUT=cfg["collect"],
                         REQUEST_RESPONSE_DELAY_MIN=self.rr[0], REQUEST_RESPONSE_DELAY_MAX=self.rr[1])
        if cfg.get("endpoint_cyclic_differs"):
            # the endpoint's own timings say the opposite about cyclic offers; the instance was built with its own ones
            import dataclasses
            self.prot = make_sd(self.loop, dataclasses.replace(self.t, CYCLIC_OFFER_DELAY=0 if cfg["cyclic"] else 1))
        else:
            self.prot = make_sd(self.loop, self.t)
        self.ninst = cfg.get("instances", 1)
        self.opts = (hdr.IPv4EndpointOption(ipaddress.IPv4Address("192.0.2.1"), hdr.L4Protocols.UDP, 30501),)
        self.insts = {}
        self.simple = None
        if cfg.get("helper"):
            class S(svc.SimpleService):
                service_id = self.sid
                version_major = 1
                version_minor = 7

            self.simple = S(instance_id=1)
            self.simple.transport = FakeTransport(self.loop, sockname=("192.0.2.1", 30501))
            self.simple.start_announce(self.prot.announcer)
            self.minor = 7
        else:
            self.minor = 7
            for i in range(1, self.ninst + 1):
                # an earlier description of the same ids with another endpoint was turned into offer entries in
                # this process (the configuration before a reconfiguration): must not matter
                old = (hdr.IPv4EndpointOption(ipaddress.IPv4Address("192.0.2.200"), hdr.L4Protocols.TCP, 20501),)
                for ttl in (self.t.ANNOUNCE_TTL, 3, 0):
                    cfg_.Service(self.sid, i, 1, 7, options_1=old, eventgroups=frozenset({5})).create_offer_entry(ttl)
                inst = sd.ServiceInstance(cfg_.Service(self.sid, i, 1, 7, options_1=self.opts,
                                                       eventgroups=frozenset({5})),
                                          sd.ServerServiceListener(), self.prot.announcer, self.t)
                self.insts[i] = inst
                if not (cfg.get("stagger") and i == 2):
                    self.prot.announcer.announce_service(inst)
        # model
        self.started = True
        self.announced = {i: True for i in range(1, self.ninst + 1)}
        self.intervals = {i: [[0.0, None, None, False]] for i in range(1, self.ninst + 1)}  # [start, stop, pos, deferred]
        self.find_session = 0
        self.finds = []  # (time, channel)
        self.prot.announcer.start()
        if cfg.get("stagger"):
            # the second instance is announced a little later: its scheduled offers open the multicast queue at other
            # instants than the first instance's
            self.loop.run_until(cfg["stagger"])
            self.place_from = cfg["stagger"]  # disturbances only after the set-up
            self.intervals[2] = [[self.loop.time(), None, None, False]]
            self.prot.announcer.announce_service(self.insts[2])

    def close(self):
        self.seam.__exit__(None, None, None)
        super().close()

    def before_action(self, dev):
        self.cur_pos = dev[1]

    # -- model helpers ---------------------------------------------------------------------
    def _running(self, i):
        return self.started and self.announced[i]

    def _set(self, started=None, announced=None, deferred=False):
        now = self.loop.time()
        before = {i: self._running(i) for i in self.announced}
        if started is not None:
            self.started = started
        if announced is not None:
            self.announced[announced[0]] = announced[1]
        for i in self.announced:
            after = self._running(i)
            if before[i] and not after:
                self.intervals[i][-1][1] = now
                self.intervals[i][-1][2] = self.cur_pos
                self.intervals[i][-1][3] = deferred
            elif after and not before[i]:
                self.intervals[i].append([now, None, None, False])

    def actions(self):
        acts = [("ann-stop",)]
        if not self.started:
            acts.append(("ann-start",))
        for i in sorted(self.announced):
            acts.append(("svc-stop", i) if self.announced[i] else ("svc-start", i))
        # stop and start again with no loop iteration in between (the stopped life's StopOffer is still owed)
        if self.started:
            acts.append(("ann-bounce",))
            acts += [("svc-bounce", i) for i in sorted(self.announced) if self.announced[i]]
        acts += [("connlost",), ("find", 0), ("find", 1)]
        if self.cfg.get("stagger"):
            acts.append(("two-finds",))  # unicast FindService from two peers in one instant: two send queues hold answers
        if self.started:
            # a FindService handled and, in the same loop iteration, before its (deferred) answer, a stop
            acts += [("find+stop", 0), ("find+stop", 1)]
        if self.simple is not None:
            acts = [("helper-stop",)] if self.announced[1] else []
        return acts

    def do(self, act):
        ann = self.prot.announcer
        if act[0] == "ann-stop":
            self._set(started=False)
            ann.stop()
        elif act[0] == "ann-start":
            self._set(started=True)
            ann.start()
        elif act[0] == "ann-bounce":
            self._set(started=False)
            ann.stop()
            self._set(started=True)
            ann.start()
        elif act[0] == "svc-bounce":
            self._set(announced=(act[1], False))
            ann.stop_announce_service(self.insts[act[1]])
            self._set(announced=(act[1], True))
            ann.announce_service(self.insts[act[1]])
        elif act[0] == "svc-stop":
            self._set(announced=(act[1], False))
            ann.stop_announce_service(self.insts[act[1]])
        elif act[0] == "svc-start":
            self._set(announced=(act[1], True))
            ann.announce_service(self.insts[act[1]])
        elif act[0] == "connlost":
            # the protocol object defers the stop by one callback: when connection_lost() runs after
            # the timers of the iteration (post), an offer due at this instant still leaves first
            self._set(started=False, deferred=True)
            self.prot.connection_lost(None)
        elif act[0] == "find":
            self.find_session += 1
            self.finds.append((self.loop.time(), act[1]))
            data = refcodec.sd_message(self.find_session, [("find", self.sid, 0xFFFF, 0xFF, 3, 0xFFFFFFFF, (), ())])
            self.prot.datagram_received(data, REQ, bool(act[1]))
        elif act[0] == "two-finds":
            for peer in (REQ, REQ2):
                self.find_session += 1
                self.finds.append((self.loop.time(), 0))
                data = refcodec.sd_message(self.find_session, [("find", self.sid, 0xFFFF, 0xFF, 3, 0xFFFFFFFF, (), ())])
                self.prot.datagram_received(data, peer, False)
        elif act[0] == "find+stop":
            self.find_session += 1
            self.finds.append((self.loop.time(), act[1]))
            data = refcodec.sd_message(self.find_session, [("find", self.sid, 0xFFFF, 0xFF, 3, 0xFFFFFFFF, (), ())])
            self.prot.datagram_received(data, REQ, bool(act[1]))
            self._set(started=False)
            ann.stop()
        elif act[0] == "helper-stop":
            self._set(announced=(1, False))
            self.simple.stop_announce(ann)

    def on_exception(self, act, e):
        self.viol("no-exception", f"{act[0]}-{type(e).__name__}",
                  f"action {act} at t={self.loop.time()} raised {type(e).__name__}: {e}")

    # -- oracle ----------------------------------------------------------------------------
    def wire(self):
        """-> per instance: list of (time, seq, dest, ttl, ok_content)"""
        per = {i: [] for i in self.announced}
        seq = 0
        for t, it, data, addr in self.prot.transport.sent:
            try:
                msgs = refcodec.dec_sd_datagram(data)
            except refcodec.RefError as e:
                self.viol("wire", "undecodable", f"datagram at {t}: {e}")
                continue
            for m in msgs:
                first = True
                for e in m["entries"]:
                    seq += 1
                    if e[0] != "offer" or e[1] != self.sid:
                        continue
                    kind, s, inst, major, ttl, minor, r1, r2 = e
                    want_opts = (refcodec.v4("192.0.2.1", 30501),)
                    ok = (major, minor, r1, r2) == (1, self.minor, want_opts, ())
                    if inst in per:
                        per[inst].append((t, seq, addr, ttl, ok, first))
                    first = False
        return per

    def expected(self, i, horizon):
        """-> list of alternatives; each a list of (kind, tmin, tmax, interval index)"""
        cfg = self.cfg
        c = cfg["collect"]
        r = self.loop._clock_resolution
        seq = []
        optional = []
        for n, (ts, te, pos, deferred) in enumerate(self.intervals[i]):
            allq = timeline(ts, self.d, cfg["reps"], 0.125, cfg["cyclic"], horizon)
            if te is None:
                queued = wire = allq
            else:
                # an offer whose timer fires in the iteration of the stop call is not queued (the task is
                # cancelled before it resumes) unless the stop itself is deferred by one callback and was
                # requested after the timers of that iteration
                queued = [q for q in allq if q < te - r or (abs(q - te) < r and deferred and pos == "post")]
                # a queued offer still waiting in the send collector when the instance stops is flushed:
                # it leaves at the stop instant, before the StopOffer
                wire = queued
            for q in wire:
                if q + c <= horizon or (te is not None and te <= horizon):
                    seq.append(("offer", q, q + c if te is None else min(q + c, max(te, q)), n))
            if te is not None and te + c <= horizon:
                if queued or not cfg["cyclic"]:
                    if not wire:
                        # a non-cyclic instance stopped before its first offer: whether a StopOffer follows is
                        # not specified
                        optional.append(len(seq))
                    seq.append(("stop", te, te + c, n))
        alts = [seq]
        for k in optional:
            alts += [[x for j, x in enumerate(a) if j != k] for a in list(alts)]
        return alts

    def judge(self):
        if self.exceptions:
            return  # a control call raised (reported already); the model no longer describes the run
        cfg = self.cfg
        c = cfg["collect"]
        horizon = self.loop.time()
        per = self.wire()
        for i, evs in per.items():
            ivs = self.intervals[i]
            mc = [e for e in evs if e[2] == MCAST]
            obs = [("stop" if e[3] == 0 else "offer", e[0], e) for e in mc]
            alts = self.expected(i, horizon)
            problems = None
            for exp in alts:
                problems = self.align(i, obs, exp, ivs)
                if not problems:
                    break
            for clause, disc, detail in problems or ():
                self.viol(clause, disc, detail)
            for e in mc:
                if e[3] != 0 and (e[3] != cfg["ttl"] or not e[4]):
                    self.viol("offer-content", "ttl" if e[3] != cfg["ttl"] else "fields",
                              f"instance {i}: offer at {e[0]} ttl={e[3]} content_ok={e[4]}")
            # no offer of any kind may leave during an initial wait phase (before the run's first offer)
            r_ = self.loop._clock_resolution
            for n, (ts, te, _p, _d) in enumerate(ivs):
                if n == 0:
                    continue
                first = ts + self.d
                # the previous run's StopOffer (if that run had offered): the first one on the wire from its stop on;
                # offers that left before it were flushed out of the send queues by that stop and belong to that run
                prev_stop_seq = None
                te_prev = ivs[n - 1][1]
                for e in mc:
                    if e[3] == 0 and te_prev is not None and te_prev - r_ <= e[0] <= te_prev + cfg["collect"] + r_:
                        prev_stop_seq = e[1]
                        break
                for e in evs:
                    if e[3] == 0 or e[0] >= first - r_ or e[0] < ts - r_:
                        continue
                    if te is not None and e[0] > te + r_:
                        continue
                    if prev_stop_seq is not None and e[1] < prev_stop_seq:
                        continue  # left before the previous run's StopOffer: belongs to that run
                    if abs(e[0] - ts) < r_ and self.d == 0:
                        continue
                    self.viol("initial-wait", "offer-before-first-offer",
                              f"instance {i} restarted at {ts}: Offer with TTL {e[3]} sent to {e[2]} at {e[0]}, before the "
                              f"first offer of the run is due at {first} (finds {self.finds})")
                    break
            # unicast offers (answers to FindService) must not follow the stop
            stops_seq = {}
            for e in mc:
                if e[3] == 0:
                    stops_seq.setdefault(len(stops_seq), e[1])
            nstop = 0
            for n, (ts, te, _pos, _dfr) in enumerate(ivs):
                if te is None:
                    continue
                nxt = ivs[n + 1][0] if n + 1 < len(ivs) else horizon + 1
                sseq = stops_seq.get(nstop)
                if sseq is not None:
                    nstop += 1
                for e in evs:
                    if e[2] == MCAST or e[3] == 0:
                        continue
                    late = (e[1] > sseq) if sseq is not None else (e[0] > te + c)
                    if late and e[0] >= te and e[0] < nxt:
                        self.viol("silence-after-stop", "unicast",
                                  f"instance {i} stopped at {te}: Offer with TTL {e[3]} sent to {e[2]} at {e[0]} "
                                  f"(finds received at {self.finds})")
                        break

    def align(self, i, obs, exp, ivs):
        c = self.cfg["collect"]
        kinds_o = [o[0] for o in obs]
        kinds_e = [x[0] for x in exp]
        if kinds_o != kinds_e:
            # classify the first difference
            j = 0
            while j < min(len(kinds_o), len(kinds_e)) and kinds_o[j] == kinds_e[j]:
                j += 1
            if j < len(kinds_o) and kinds_o[j] == "offer":
                # an offer that is not expected here: after a StopOffer and before the next start?
                prev_stop = j > 0 and kinds_o[j - 1] == "stop" or (j > 0 and exp and j <= len(exp) and exp[j - 1][0] == "stop")
                n = exp[j - 1][3] if j > 0 and j - 1 < len(exp) else 0
                nxt = ivs[n + 1][0] if n + 1 < len(ivs) else None
                if prev_stop and (nxt is None or obs[j][1] < nxt):
                    return [("silence-after-stop", "multicast",
                             f"instance {i}: Offer to the multicast group at {obs[j][1]} after the StopOffer of run {n}")]
                return [("timeline", "extra", f"instance {i}: observed {[(k, t) for k, t, _ in obs]} expected "
                         f"{[(x[0], x[1]) for x in exp]}")]
            if j < len(kinds_o) and kinds_o[j] == "stop":
                return [("stop-offer", "unexpected" if j >= len(kinds_e) or kinds_e[j] != "stop" else "order",
                         f"instance {i}: observed {[(k, t) for k, t, _ in obs]} expected {[(x[0], x[1]) for x in exp]}")]
            want = kinds_e[j]
            return [("timeline" if want == "offer" else "stop-offer", "missing",
                     f"instance {i}: observed {[(k, t) for k, t, _ in obs]} expected {[(x[0], x[1]) for x in exp]}")]
        out = []
        for (k, t, e), (ke, tmin, tmax, n) in zip(obs, exp):
            ok = tmin <= t <= tmax
            if ok and c and e[5] and k == "offer" and t != tmax and self.ninst == 1:
                # first entry of its message: the collector was opened by it, so it leaves exactly c later
                ok = False
            if not ok:
                out.append(("timeline" if k == "offer" else "stop-offer", "time",
                            f"instance {i}: {k} on the wire at {t}, expected within [{tmin}, {tmax}] (run {n})"))
                break
        return out

    def outcome(self):
        return (len(self.prot.transport.sent), tuple(len(v) for v in self.intervals.values()))


def base_cfgs(ctx):
    sid = sid_for(ctx.seed)
    out = []
    reps_set = (0, 1, 2) if not ctx.thorough else (0, 1, 2, 3, 4)
    for window, frac, reps, cyclic, ttl, collect in itertools.product(
            ((0.0, 0.0), (0.125, 0.25)), (0.0, 1.0), reps_set, (0, 1), (3, INF), (0, C)):
        if window == (0.0, 0.0) and frac == 1.0:
            continue
        out.append(dict(sid=sid, window=window, frac=frac, reps=reps, cyclic=cyclic, ttl=ttl, collect=collect,
                        rr=(2.0 ** -5, 2.0 ** -4), instances=1))
    return out


def extra_cfgs(ctx):
    sid = sid_for(ctx.seed)
    two = [dict(sid=sid, window=(0.125, 0.25), frac=f, reps=1, cyclic=cy, ttl=3, collect=col,
                rr=(2.0 ** -5, 2.0 ** -4), instances=2) for f in (0.0, 1.0) for cy in (0, 1) for col in (0, C)]
    helper = [dict(sid=sid, window=(0.125, 0.25), frac=0.0, reps=1, cyclic=cy, ttl=3, collect=0,
                   rr=(0.0, 0.0), instances=1, helper=True) for cy in (0, 1)]
    two += [dict(sid=sid, window=(0.125, 0.25), frac=0.0, reps=1, cyclic=cy, ttl=3, collect=col, rr=(2.0 ** -5, 2.0 ** -4),
                 instances=1, endpoint_cyclic_differs=True) for cy in (0, 1) for col in (0, C)]
    # a cyclic period longer than the TTL (legal; the offer expires between two cyclic offers): the TTL on the wire is the
    # configured one all the same
    two += [dict(sid=sid, window=(0.125, 0.25), frac=0.0, reps=reps, cyclic=1.5, ttl=1, collect=col, rr=(2.0 ** -5, 2.0 ** -4),
                 instances=1) for reps in (0, 1) for col in (0, C)]
    # two instances whose schedules are 3/64 s apart, answers waiting for two finders
    two += [dict(sid=sid, window=(0.0, 0.0), frac=0.0, reps=1, cyclic=cy, ttl=ttl, collect=C, rr=(2.0 ** -5, 2.0 ** -4),
                 instances=2, stagger=3 / 64) for cy in (0, 1) for ttl in (3, INF)]
    return two, helper


def find_stop_start(cfg, devs, p, k):
    """third disturbance: FindService, stop and start again while the (delayed) answer is pending"""
    return (k == 3 and not cfg.get("helper") and devs[0][2][0] == "find" and devs[1][2][0] == "ann-stop"
            and p[2][0] == "ann-start" and devs[1][0] - devs[0][0] <= 0.07 and p[0] - devs[1][0] <= 0.07
            and cfg["window"] != (0.0, 0.0))


def restrict_quick(cfg, devs, p, k):
    if k <= 1:
        return True
    if k == 3:
        return find_stop_start(cfg, devs, p, k) and cfg["reps"] == 1 and cfg["ttl"] == 3
    if cfg.get("stagger"):
        # answers for two finders are waiting, then the instance (or everything) stops before the queues fire
        return k == 2 and devs[0][2][0] == "two-finds" and p[2] in (("svc-stop", 1), ("ann-stop",)) and p[0] - devs[0][0] <= cfg["collect"]
    # second disturbance: only within 1.25 s after the first, and only for a sub-family of configurations
    if cfg.get("helper") or cfg.get("instances", 1) > 1:
        return False
    if devs[0][2][0] == "find" and p[2][0] == "ann-stop" and p[0] - devs[0][0] <= 0.07 and cfg["reps"] == 1 \
            and cfg["ttl"] == 3 and cfg["window"] != (0.0, 0.0):
        return True
    if not (cfg["reps"] == 1 and cfg["collect"] != 0 and cfg["ttl"] == 3):
        return False
    return p[0] - devs[-1][0] <= 1.25


def restrict_thorough(cfg, devs, p, k):
    if k <= 2:
        return not (k == 2 and cfg.get("helper"))
    return find_stop_start(cfg, devs, p, k)


def check(ctx):
    cfgs = base_cfgs(ctx)
    two, helper = extra_cfgs(ctx)
    allc = cfgs + two + helper
    res, viols = e2.search(ctx, Sys, allc, 3, restrict=restrict_thorough if ctx.thorough else restrict_quick)
    samples = core.Samples()
    samples.add(dict(cfg=allc[0], devs=[]), "default schedule")
    samples.add(dict(cfg=allc[5], devs=[[1.25, "post", ["ann-stop"]], [1.25 + 2 ** -10, "pre", ["find", 1]]]), "two disturbances")
    cov = dict(
        states=res.runs, transitions=res.runs, traces_validated_against_impl=res.runs, samples=samples.out(),
        runs=res.runs, runs_by_deviation_count=res.by_level, deviation_bound_completed=res.completed_k,
        configurations=len(allc), placements_discovered=res.instants, distinct_outcomes=len(res.outcomes),
        caps_hit=[res.capped] if res.capped else [], exhaustive=res.capped is None,
        note="states/transitions count complete runs to the horizon (stateless exploration); k=2 layer: "
             + ("all base configurations" if ctx.thorough else "restricted to a sub-family and to a 1.25 s window after the first disturbance"),
    )
    return core.finish(ctx, "model_checking", cov, viols, [
        "random.uniform is an explorer choice over {min, max} of each window",
        "disturbances are placed at every timer deadline discovered in the run so far, at -eps / pre / post / +eps",
        "a non-cyclic instance stopped before its first offer is not specified by the statement and not judged",
    ])


def replay(ctx, body):
    return e2.replay_case(Sys, body)
