"""C05 - discovery listeners see a truthful, strictly alternating service history (E1).

Real code driven: ServiceDiscoveryProtocol.datagram_received (so the ordering of reboot handling
and entry dispatch in message_received is inside the explored code), ServiceDiscover.watch* and
connection_lost, TimedStore.  Messages are built by the independent encoder with a harness-side
session counter per (source, channel)."""
from __future__ import annotations

import someip.config as cfg_

from .. import canon, core, e1, refcodec
from ..world import Choice, ClientRec, RandomSeam, make_sd, timings

INF = 0xFFFFFF
SRC = {"S1": ("192.0.2.41", 30490), "S2": ("192.0.2.42", 30490),
       # sources that differ from another one in a single component: the port (S5 vs S1), the scope id (S3 vs S4)
       "S3": ("fe80::41", 30490, 0, 2), "S4": ("fe80::41", 30490, 0, 3), "S5": ("192.0.2.41", 30491)}
SRCNAME = {v: k for k, v in SRC.items()}


def sid_for(seed):
    return 0x2000 + seed % 0xD000


def svc(sid, name):
    return (sid, {"X": 1, "Y": 2}[name], 1, 0)


OPT_A = refcodec.v4("192.0.2.41", 30501)
OPT_B = refcodec.v4("192.0.2.41", 30502, proto=6)
MSGS = {
    # name -> list of (service name, ttl)
    "offX1": [("X", 1)], "offX2": [("X", 2)], "offXinf": [("X", INF)], "stopX": [("X", 0)],
    "offY1": [("Y", 1)], "stopY": [("Y", 0)], "offX2+offY1": [("X", 2), ("Y", 1)],
    "offX2+offX1+offX2": [("X", 2), ("X", 1), ("X", 2)], "offX1+stopX+offX1": [("X", 1), ("X", 0), ("X", 1)],
    # the last entry for a key decides: offer then stop, stop then offer, long then short TTL
    "offX1+stopX": [("X", 1), ("X", 0)], "stopX+offX1": [("X", 0), ("X", 1)], "offX2+offX1": [("X", 2), ("X", 1)],
}


class Model:
    def __init__(self):
        self.live = {}  # (src, svc name) -> expiry or None(=infinite)
        self.arrived = {}  # (src, svc name) -> set of listener names registered at an arrival
        self.registered = {"L1": True, "L2": False, "L3": False}
        self.last = {}  # (listener, svc name, src) -> 'offered' | 'stopped'
        self.sent_before = set()  # (src, channel) that have sent at least one message
        self.connlost_pending = False

    def _canon_(self, now):
        return (
            tuple(sorted((k, None if v is None else v - now) for k, v in self.live.items())),
            tuple(sorted((k, tuple(sorted(v))) for k, v in self.arrived.items() if v)),
            tuple(sorted(self.registered.items())),
            tuple(sorted(self.last.items())),
            tuple(sorted(self.sent_before)), self.connlost_pending,
        )


FILTER = {"L1": lambda n: True, "L2": lambda n: n == "X", "L3": lambda n: True}


class Sys(e1.TimedSys):
    abstract_incoming = True

    def setup(self, cfg):
        self.sid = cfg["sid"]
        self.advs = tuple(cfg["advs"])
        self.menu = cfg["menu"]  # list of (src, msgname, evidence, multicast)
        self.controls = cfg["controls"]
        self.max_deviations = cfg.get("deviations", 0)
        self.seam = RandomSeam(Choice())
        self.seam.__enter__()
        self.prot = make_sd(self.loop, timings())
        self.log = []
        self.nlog = 0
        self.model = Model()
        self.L = {n: ClientRec(n, self.log, self.loop) for n in ("L1", "L2", "L3")}
        self.wire = {}  # (src, multicast) -> last session id sent
        if cfg.get("no_L1"):
            self.model.registered["L1"] = False  # nobody watches until the control registers L2
        else:
            self.prot.discovery.watch_service(cfg_.Service(self.sid), self.L["L1"])
        self.step_reboots = []
        self.step_kinds = []
        self.flags = {}  # (src, multicast) -> reboot flag the source currently sends

    def close(self):
        self.seam.__exit__(None, None, None)
        super().close()

    def roots(self):
        return [self.prot, self.model] + [self.L[n] for n in sorted(self.L)]

    def key(self):
        c = canon.Canon(self.loop)
        c.abstract_incoming = True
        return canon.key_of((c.snapshot(self.roots()), self.key_extra()))

    def key_extra(self):
        # verdict-relevant bookkeeping that is pending while the loop is not idle
        pend = tuple((src, tuple(sorted(pairs)), tuple(self.step_kinds[start:])) for src, pairs, start in self.step_reboots)
        return super().key_extra() + (pend,)

    def actions(self):
        acts = []
        for src, name, ev, mc in self.menu:
            if ev[0] == "r" and (src, mc) not in self.model.sent_before:
                continue  # reboot evidence needs an earlier message to compare with (C07)
            acts.append(("msg", src, name, ev, mc))
        reg = self.model.registered
        if any(h.args[0][0] != "msg" for h in self.held):
            return acts  # a control call is already pending in this iteration
        for c in self.controls:
            if c == "L2":
                acts.append(("unwatch", "L2") if reg["L2"] else ("watch", "L2"))
            elif c == "L3":
                acts.append(("unwatchall", "L3") if reg["L3"] else ("watchall", "L3"))
            elif c == "connlost":
                acts.append(("connlost",))
        return acts

    # ------------------------------------------------------------------------------------
    def do(self, act):
        now = self.loop.time()
        m = self.model
        d = self.prot.discovery
        if act[0] == "msg":
            _, src, name, ev, mc = act
            k = (src, mc)
            uflag = not ev.endswith("u")  # SD unicast flag clear: the entries are ignored, the sender is still tracked
            if ev[0] == "r":
                sess = 1
                self._absorb()
                self.step_reboots.append(
                    (src, {(ln, sn) for (ln, sn, s), v in m.last.items() if s == src and v == "offered"},
                     len(self.step_kinds)))
                for key in [key for key in m.live if key[0] == src]:
                    del m.live[key]
                    m.arrived.pop(key, None)
            else:
                sess = self.wire.get(k, self.cfg.get("session_base", 0)) + 1
            self.wire[k] = sess
            # a peer whose session counter has wrapped sends with the reboot flag clear until it reboots
            flag = True if ev[0] == "r" else self.flags.get(k, not self.cfg.get("wrapped", False))
            self.flags[k] = flag
            m.sent_before.add(k)
            entries = []
            for sname, ttl in MSGS[name]:
                s = svc(self.sid, sname)
                # offers carry endpoint options, packed differently from message to message (both in run 1 / one in each
                # run); stop-offers carry none: the identity of an offered service is its ids
                if ttl == 0:
                    r1, r2 = (), ()
                elif ttl == 1:
                    r1, r2 = (OPT_A, OPT_B), ()
                else:
                    r1, r2 = (OPT_A,), (OPT_B,)
                entries.append(("offer", s[0], s[1], s[2], ttl, s[3], r1, r2))
                key = (src, sname)
                if not uflag:
                    continue
                if ttl == 0:
                    m.live.pop(key, None)
                    m.arrived.pop(key, None)
                else:
                    m.live[key] = None if ttl == INF else now + ttl
                    regd = {ln for ln, on in m.registered.items() if on and FILTER[ln](sname)}
                    m.arrived.setdefault(key, set()).update(regd)
            # the options array holds A and B once; every entry refers to it (so that an entry repeated in a message is
            # repeated byte for byte, as a sender that packs its options once would send it)
            raw = []
            for kind, s0, s1, s2, ttl, s3, r1, r2 in entries:
                raw.append(dict(type=refcodec.ENTRY_CODES[kind], i1=0, i2=1 if r2 else 0, n1=len(r1), n2=len(r2),
                                service=s0, instance=s1, major=s2, ttl=ttl, last=s3))
            anyopt = any(e["n1"] for e in raw)
            payload = refcodec.enc_sd((0x80 if flag else 0) | (0x40 if uflag else 0), raw, [OPT_A, OPT_B] if anyopt else [])
            data = refcodec.enc_someip(0xFFFF, 0x8100, 0, sess, 1, 2, 0, payload)
            self.prot.datagram_received(data, SRC[src], bool(mc))
        elif act[0] == "watch":
            m.registered["L2"] = True
            d.watch_service(cfg_.Service(self.sid, 1), self.L["L2"])
        elif act[0] == "unwatch":
            m.registered["L2"] = False
            for v in m.arrived.values():
                v.discard("L2")
            d.stop_watch_service(cfg_.Service(self.sid, 1), self.L["L2"])
        elif act[0] == "watchall":
            m.registered["L3"] = True
            d.watch_all_services(self.L["L3"])
        elif act[0] == "unwatchall":
            m.registered["L3"] = False
            for v in m.arrived.values():
                v.discard("L3")
            d.stop_watch_all_services(self.L["L3"])
        elif act[0] == "connlost":
            # the protocol object defers the purge by one callback; a datagram handled in between is
            # stored first and purged right after (offered, stopped) - the model applies the loss then
            m.connlost_pending = True
            self.prot.connection_lost(None)

    # ------------------------------------------------------------------------------------
    def _apply_connlost(self):
        m = self.model
        if m.connlost_pending:
            m.connlost_pending = False
            m.live.clear()
            m.arrived.clear()

    def before_step(self, ev):
        self._apply_connlost()  # the deferred purge of an earlier connection_lost() runs before this step's action
        now = self.loop.time()
        r = self.loop._clock_resolution
        m = self.model
        adv, pos, act, mode = ev
        # expiries at this instant.  A message of the same iteration that re-offers the entry is a
        # tie: 'stopped then offered' and 'nothing' are both fine; the model just lets do() set the
        # new deadline.
        for key, exp in list(m.live.items()):
            if exp is not None and exp < now + r:
                del m.live[key]
                m.arrived.pop(key, None)

    def _absorb(self, ev=None):
        """process the listener callbacks logged so far: alternation monitor + latest view"""
        m = self.model
        new = self.log[self.nlog:]
        self.nlog = len(self.log)
        for t, it, ln, kind, service, source in new:
            sname = {1: "X", 2: "Y"}.get(service.instance_id, "?")
            src = SRCNAME.get(source, "?")
            self.step_kinds.append((ln, kind, sname, src))
            k = (ln, sname, src)
            prev = m.last.get(k)
            if kind == prev or (prev is None and kind == "stopped"):
                self.viol("alternation", f"{kind}-after-{prev}",
                          f"listener {ln} got '{kind}' for {sname}@{src} after '{prev}' (step log {self.step_kinds})")
            m.last[k] = kind

    def after_step(self, ev):
        m = self.model
        self._absorb()
        kinds = self.step_kinds
        self.outcome = tuple(k[1][0] for k in kinds)
        self.last_kinds = list(kinds)
        # reboot order: everything learnt from the sender is stopped before this message's offers
        if self.loop.idle() and not self.held:
            for src, pairs, start in self.step_reboots:
                # only what happened from the delivery of that message on (another call of the same
                # iteration, e.g. a held watch_service, is not 'caused by that message')
                seq = [(ln, kind, sname) for (ln, kind, sname, s) in kinds[start:] if s == src]
                first_offer = next((i for i, x in enumerate(seq) if x[1] == "offered"), len(seq))
                for ln, sname in sorted(pairs):
                    idx = next((i for i, x in enumerate(seq) if x == (ln, "stopped", sname)), None)
                    if idx is None:
                        self.viol("reboot-order", "not-stopped",
                                  f"{ln} had {sname}@{src} offered; reboot evidence did not report it stopped: {seq}")
                    elif idx > first_offer:
                        self.viol("reboot-order", "stopped-after-offered",
                                  f"{ln}: 'stopped' for {sname}@{src} came after an 'offered' of the same message: {seq}")
            self.step_reboots = []
            self.step_kinds = []
        if not self.loop.idle() or self.held:
            return
        self._apply_connlost()
        for ln in ("L1", "L2", "L3"):
            for sname in ("X", "Y"):
                for src in SRC:
                    last = m.last.get((ln, sname, src))
                    live = (src, sname) in m.live
                    if last == "offered" and not live:
                        self.viol("idle-truth", "offered-but-not-live",
                                  f"{ln} believes {sname}@{src} offered, but no live offer exists (event {ev})")
                    if live and ln in m.arrived.get((src, sname), ()) and last != "offered":
                        self.viol("idle-truth", "live-but-not-offered",
                                  f"{ln} was registered when the live offer {sname}@{src} arrived, "
                                  f"latest notification is {last} (event {ev})")

    def describe_step(self):
        return self.last_kinds


CLOSURE = 40


def configs(ctx):
    sid = sid_for(ctx.seed)
    base = (None, "half", "next", "next-2r")
    full = (None, "half", "next", "next-2r", "next-r/2", "next+eps")
    mc = 1
    s1x = [("S1", n, e, mc) for n in ("offX1", "offX2", "offXinf", "stopX") for e in ("n", "r")]
    out = []
    # S1 / X only, all clock moves, deviations, to closure
    out.append(("S1-X-deep", dict(sid=sid, advs=full, menu=s1x, controls=("L2", "connlost"),
                                  deviations=ctx.pick(1, 2), fine=ctx.pick(1, 2)), CLOSURE))
    # the same alphabet with a source whose session counter is far advanced when it reboots (0xFFF0 -> 1)
    rep = [("S1", n, "n", mc) for n in ("offX2+offX1+offX2", "offX1+stopX+offX1", "offX1", "stopX", "offX1+stopX", "stopX+offX1",
                                        "offX2+offX1")]
    out.append(("S1-X-repeated-entries", dict(sid=sid, advs=base, menu=rep, controls=(), deviations=0, fine=1), CLOSURE))
    out.append(("S1-X-high-session", dict(sid=sid, advs=base, menu=s1x, controls=(), deviations=0, fine=1,
                                          session_base=0xFFF0 - ctx.seed % 0x7000), CLOSURE))
    # a source that has wrapped its session counter (reboot flag clear) before it reboots; a second service shows
    # whether later messages are taken for reboots
    wr = s1x + [("S1", n, "n", mc) for n in ("offY1",)]
    out.append(("S1-wrapped-peer", dict(sid=sid, advs=base, menu=wr, controls=(), deviations=0, fine=1, wrapped=True,
                                        session_base=0x0100 + ctx.seed % 0x7000), CLOSURE))
    # full menu: two sources, two services, all listeners
    menu = s1x + [("S1", n, "n", mc) for n in ("offY1", "stopY", "offX2+offY1")] + \
        [("S1", "offX2+offY1", "r", mc)] + [("S2", n, e, mc) for n in ("offX2", "stopX") for e in ("n", "r")]
    out.append(("full-menu", dict(sid=sid, advs=base, menu=menu, controls=("L2", "L3", "connlost"),
                                  deviations=ctx.pick(0, 1), fine=1), ctx.pick(4, 6)))
    # one listener only, which comes and goes: what happens to a once-watched service while nobody watches still counts
    solo = [("S1", n, "n", mc) for n in ("offX1", "offX2", "offXinf", "stopX")]
    out.append(("L2-comes-and-goes", dict(sid=sid, advs=(None, "half", "next"), menu=solo, controls=("L2",), deviations=0, fine=0,
                                          no_L1=True), CLOSURE))
    uf = [("S1", n, e, mc) for n in ("offX2", "stopX", "offY1") for e in ("n", "r", "nu", "ru")]
    out.append(("S1-unicast-flag-clear", dict(sid=sid, advs=(None, "next"), menu=uf, controls=(), deviations=0, fine=0), CLOSURE))
    alias = [(c, n, "n", mc) for c in ("S1", "S5", "S3", "S4") for n in ("offX2", "stopX")] + \
        [("S3", "offX2", "r", mc), ("S5", "stopX", "r", mc)]
    out.append(("aliased-source-addresses", dict(sid=sid, advs=(None, "next"), menu=alias, controls=(), deviations=0, fine=0),
                ctx.pick(5, 7)))
    # both channels of one source (reboot evidence is per channel)
    two = [("S1", n, e, c) for n in ("offX2", "stopX") for e in ("n", "r") for c in (0, 1)]
    out.append(("two-channels", dict(sid=sid, advs=base, menu=two, controls=("L3",),
                                     deviations=ctx.pick(1, 2), fine=ctx.pick(1, 2)), CLOSURE))
    return out


def check(ctx):
    details, viols = [], []
    samples = core.Samples()
    for name, cfg, depth in configs(ctx):
        res, vs, det = e1.search(ctx, Sys, cfg, depth, name)
        core.close_pool()
        details.append(det)
        viols += vs
        if res.deepest is not None:
            samples.add(dict(search=name, history=res.deepest[0]))
    cov = e1.summarize(details)
    cov["samples"] = samples.out()
    cov["exhaustive"] = not cov["caps_hit"]
    cov["depth_completed"] = {d["search"]: d["depth_completed"] for d in details}
    return core.finish(ctx, "model_checking", cov, viols, [
        "one listener object per registration (the same object under two overlapping filters is notified twice by design)",
        "session ids are abstracted in the state key: the harness only ever sends 'previous id + 1' or a restart at 1",
        "histories beyond the stated depth / alphabet are not covered (no random tail: sampling is another family)",
    ])


def replay(ctx, body):
    return e1.replay_case(Sys, body)
