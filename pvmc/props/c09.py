"""C09 - TTL expiry fires exactly once, on time, never early; a refresh postpones it (E1).

Two harness modes drive the real TimedStore through the two narrowest public seams that reach
it (they call refresh from different loop positions):
  discover : ServiceDiscover.handle_offer / reboot_detected / connection_lost
  instance : ServiceInstance.handle_subscribe / reboot_detected, ServiceAnnouncer.stop
The oracle is an exact expected (time, kind, key, address) notification list per step."""
from __future__ import annotations

import someip.config as cfg_
import someip.header as hdr
import someip.sd as sd

from .. import canon, core, e1, refcodec
from ..world import ClientRec, ServerRec, make_sd, timings, RandomSeam, Choice

INF = 0xFFFFFF
A = {"A1": ("192.0.2.31", 30490), "A2": ("192.0.2.32", 30490),
     # two peers that differ only in the scope id of their link-local address
     "A3": ("fe80::31", 30490, 0, 2), "A4": ("fe80::31", 30490, 0, 3)}
SID = 0x5151


def offer_entry(key, ttl):
    inst = {"K1": 1, "K2": 2}[key]
    return hdr.SOMEIPSDEntry(sd_type=hdr.SOMEIPSDEntryType.OfferService, service_id=SID, instance_id=inst,
                             major_version=1, ttl=ttl, minver_or_counter=0)


def sub_entry(key, ttl):
    eg = {"K1": 5, "K2": 6}[key]
    ep = hdr.IPv4EndpointOption(__import__("ipaddress").IPv4Address("192.0.2.99"), hdr.L4Protocols.UDP, 3000 + eg)
    return hdr.SOMEIPSDEntry(sd_type=hdr.SOMEIPSDEntryType.Subscribe, service_id=SID, instance_id=1,
                             major_version=1, ttl=ttl, minver_or_counter=eg, options_1=(ep,))


class Model:
    """deadline per (address, key); expected notifications of the current step"""

    def __init__(self):
        self.deadline = {}
        self.reject = False  # instance mode: the listener refuses new subscriptions for K2

    def _canon_(self, now):
        return (tuple(sorted((k, (v - now) if v is not None else None) for k, v in self.deadline.items())), self.reject)


class Sys(e1.TimedSys):
    def setup(self, cfg):
        self.mode = cfg["mode"]
        self.ttls = cfg["ttls"]
        self.keys = cfg["keys"]
        self.addrs = cfg["addrs"]
        self.advs = cfg["advs"]
        self.seam = RandomSeam(Choice())
        self.seam.__enter__()
        self.prot = make_sd(self.loop, timings(CYCLIC_OFFER_DELAY=0, REPETITIONS_MAX=0))
        self.log = []
        self.model = Model()
        self.nlog = 0
        if self.mode == "discover":
            self.listener = ClientRec("L", self.log, self.loop)
            self.prot.discovery.watch_all_services(self.listener)
        else:
            self.listener = ServerRec("S", self.log, self.loop)
            if cfg.get("replacing"):
                # an application policy: a client's new subscription replaces its previous one - the listener calls back
                # into the instance while it is being told about the new subscription
                sys_ = self

                class Replacing(ServerRec):
                    def client_subscribed(self, subscription, source):
                        super().client_subscribed(subscription, source)
                        for prev in list(sys_.current.get(source, ())):
                            if prev != subscription:
                                sys_.inst.eventgroup_subscribe_stopped(source, prev)
                        sys_.current.setdefault(source, []).append(subscription)

                    def client_unsubscribed(self, subscription, source):
                        super().client_unsubscribed(subscription, source)
                        if subscription in sys_.current.get(source, ()):
                            sys_.current[source].remove(subscription)

                self.current = {}
                self.listener = Replacing("S", self.log, self.loop)
            self.inst = sd.ServiceInstance(cfg_.Service(SID, 1, 1, 0, eventgroups=frozenset({5, 6})),
                                           self.listener, self.prot.announcer, self.prot.timings)
            self.prot.announcer.announce_service(self.inst)
            self.prot.announcer.start()
            self.loop.settle()
            self.prot.transport.sent.clear()

    def close(self):
        self.seam.__exit__(None, None, None)
        super().close()

    def key(self):
        c = canon.Canon(self.loop)
        c.abstract_incoming = True  # the harness peer always sends the next session id
        return canon.key_of((c.snapshot(self.roots()), self.key_extra()))

    def roots(self):
        r = [self.prot, self.listener, self.model]
        if self.mode == "instance":
            r.append(self.inst)
        return r

    def actions(self):
        acts = []
        for k in self.keys:
            for a in self.addrs:
                for ttl in self.ttls:
                    acts.append(("add", k, a, ttl))
                acts.append(("stop", k, a))
        for a in self.addrs:
            acts.append(("removeall", a))
        if self.cfg.get("connlost"):
            acts.append(("connlost",))  # the endpoint reports its connection lost (it is not started again)
        if self.cfg.get("sequences") and self.mode == "discover":
            # several entries for one key in ONE SD message, through the whole receive path: the last one counts
            for seq in ((2, 1, 2), (1, 2, 1), (1, 0, 1), (INF, 1, INF), (0, 1), (0, INF)):
                acts.append(("addseq", "K1", self.addrs[0], seq))
        if self.cfg.get("sequences"):
            # a refresh (ttl 2) or a stop (ttl 0) that shares its SD message with entries of other kinds in front
            # of it, through the whole receive path: the neighbours must not matter
            for ttl in (2, 0):
                for prefix in ("ack", "nack", "find+ack"):
                    acts.append(("addmixed", "K1", self.addrs[0], ttl, prefix))
        if self.cfg.get("reject") and self.mode == "instance":
            acts.append(("reject", not self.model.reject))
        return acts

    # -- the real calls -------------------------------------------------------------------
    def do(self, act):
        now = self.loop.time()
        if act[0] == "add":
            _, k, a, ttl = act
            if self.mode == "discover":
                self.prot.discovery.handle_offer(offer_entry(k, ttl), A[a])
            else:
                self.inst.handle_subscribe(sub_entry(k, ttl), A[a])
            if (a, k) not in self.model.deadline:
                if self.mode == "instance" and self.model.reject and k == "K2":
                    return  # refused by the listener: not recorded, nothing reported, no timer may remain
                self.expect.append((now, "new", k, a))
                if self.cfg.get("replacing"):
                    for (a2, k2) in sorted(self.model.deadline):
                        if a2 == a and k2 != k:
                            del self.model.deadline[(a2, k2)]
                            self.expect.append((now, "gone", k2, a))
            self.model.deadline[(a, k)] = None if ttl == INF else now + ttl
        elif act[0] == "addseq":
            _, k, a, seq = act
            inst = {"K1": 1, "K2": 2}[k]
            self.session = getattr(self, "session", 0) + 1
            ents = [("offer", SID, inst, 1, ttl, 0, (), ()) for ttl in seq]
            self.prot.datagram_received(refcodec.sd_message(self.session, ents), A[a], True)
            for ttl in seq:
                if ttl == 0:
                    if (a, k) in self.model.deadline:
                        del self.model.deadline[(a, k)]
                        self.expect.append((now, "gone", k, a))
                else:
                    if (a, k) not in self.model.deadline:
                        self.expect.append((now, "new", k, a))
                    self.model.deadline[(a, k)] = None if ttl == INF else now + ttl
        elif act[0] == "addmixed":
            _, k, a, ttl, prefix = act
            self.session = getattr(self, "session", 0) + 1
            front = {"ack": [("suback", 0x7171, 1, 1, 3, 5, (), ())], "nack": [("suback", 0x7171, 1, 1, 0, 5, (), ())],
                     "find+ack": [("find", 0x7172, 0xFFFF, 0xFF, 3, 0xFFFFFFFF, (), ()), ("suback", SID, 1, 1, 3, 5, (), ())]}[prefix]
            if self.mode == "discover":
                ents = front + [("offer", SID, {"K1": 1, "K2": 2}[k], 1, ttl, 0, (), ())]
            else:
                eg = {"K1": 5, "K2": 6}[k]
                ents = front + [("subscribe", SID, 1, 1, ttl, eg, (refcodec.v4("192.0.2.99", 3000 + eg),), ())]
            self.prot.datagram_received(refcodec.sd_message(self.session, ents), A[a], False)
            if ttl == 0:
                if (a, k) in self.model.deadline:
                    del self.model.deadline[(a, k)]
                    self.expect.append((now, "gone", k, a))
            else:
                if (a, k) not in self.model.deadline:
                    self.expect.append((now, "new", k, a))
                self.model.deadline[(a, k)] = now + ttl
        elif act[0] == "stop":
            _, k, a = act
            if self.mode == "discover":
                self.prot.discovery.handle_offer(offer_entry(k, 0), A[a])
            else:
                self.inst.handle_subscribe(sub_entry(k, 0), A[a])
            if (a, k) in self.model.deadline:
                del self.model.deadline[(a, k)]
                self.expect.append((now, "gone", k, a))
        elif act[0] == "reject":
            self.model.reject = act[1]
            if act[1]:
                self.listener.reject.add(6)
            else:
                self.listener.reject.discard(6)
        elif act[0] == "connlost":
            # through the protocol object, which defers the teardown of its parts by one callback: everything known is
            # reported gone now, nothing expires afterwards; offers that arrive later are stored again
            self.prot.connection_lost(None)
            for (aa, k) in sorted(self.model.deadline):
                del self.model.deadline[(aa, k)]
                self.expect.append((now, "gone", k, aa))
        elif act[0] == "removeall":
            a = act[1]
            if self.mode == "discover":
                self.prot.discovery.reboot_detected(A[a])
            else:
                self.inst.reboot_detected(A[a])
            for (aa, k) in sorted(self.model.deadline):
                if aa == a:
                    del self.model.deadline[(aa, k)]
                    self.expect.append((now, "gone", k, a))

    # -- oracle ----------------------------------------------------------------------------
    def before_step(self, ev):
        self.expect = []
        self.alt = None
        adv, pos, act, mode = ev
        now = self.loop.time()
        r = self.loop._clock_resolution
        due = sorted((d, a, k) for (a, k), d in self.model.deadline.items() if d is not None and d < now + r)
        tie_key = None
        if act is not None and act[0] in ("add", "addseq", "addmixed") and due:
            tie_key = (act[2], act[1])
        if adv == "jump":
            # everything finite expires at its own deadline during the jump
            for (a, k), d in sorted(self.model.deadline.items()):
                if d is not None and d < now + e1.JUMP + r:
                    self.expect.append((d, "gone", k, a))
                    del self.model.deadline[(a, k)]
            return
        # expiries of this instant; a refresh of the same entry in the same iteration is a tie:
        # 'expired, then present again' and 'no notification' are both accepted
        for d, a, k in due:
            if tie_key == (a, k) and pos == "pre":
                # refresh first: the timer is cancelled.  alternative accepted: gone then new.
                if act[0] == "add" or (act[0] == "addmixed" and act[3] != 0):
                    self.alt = [(now, "gone", k, a), (now, "new", k, a)]
                continue
            if act is not None and pos == "pre" and (
                    (act[0] == "stop" and (act[2], act[1]) == (a, k)) or (act[0] == "removeall" and act[1] == a)
                    or (act[0] == "addmixed" and act[3] == 0 and (act[2], act[1]) == (a, k))):
                continue  # removed explicitly before the timer: do() expects the 'gone'
            # the harness lets the loop run at `now`, with d - r < now: the expiry must be reported
            # in this step, i.e. at `now` (never in an earlier step, never later)
            self.expect.append((now, "gone", k, a))
            del self.model.deadline[(a, k)]

    def after_step(self, ev):
        got = []
        for t, it, name, kind, obj, src in self.log[self.nlog:]:
            if kind == "rejected":
                continue
            if self.mode == "discover":
                k = {1: "K1", 2: "K2"}[obj.instance_id]
                kk = {"offered": "new", "stopped": "gone"}[kind]
            else:
                k = {5: "K1", 6: "K2"}[obj.id]
                kk = {"subscribed": "new", "unsubscribed": "gone"}[kind]
            a = [n for n, v in A.items() if v == src][0]
            got.append((t, kk, k, a))
        self.nlog = len(self.log)
        self.last_got = got
        if not self.loop.idle():
            return
        exp = list(self.expect)
        r = self.loop._clock_resolution
        ok = self._same(got, exp, r)
        if not ok and self.alt is not None:
            a2 = [x for x in exp if not (x[1] == "new" and (x[2], x[3]) == (self.alt[0][2], self.alt[0][3]))]
            ok = self._same(got, a2 + self.alt, r) or self._same(got, self.alt + a2, r)
        if not ok:
            self.viol("notifications", self._disc(got, exp), f"event {ev} at t={self.loop.time()}: observed {got} expected {exp}"
                      + (f" (tie alternative {self.alt})" if self.alt else ""))
        self.outcome = tuple(x[1] for x in got)

    @staticmethod
    def _same(got, exp, r):
        """per key the (time, kind) sequence must be exactly as expected; between different keys
        the order is free"""
        def per_key(seq):
            d = {}
            for t, kind, k, a in seq:
                d.setdefault((k, a), []).append((t, kind))
            return d
        return per_key(got) == per_key(exp)

    @staticmethod
    def _disc(got, exp):
        kg = [x[1] for x in got]
        ke = [x[1] for x in exp]
        if len(kg) > len(ke):
            return "extra-" + (kg[-1] if kg else "none")
        if len(kg) < len(ke):
            return "missing-" + [k for k in ke][len(kg) if len(kg) < len(ke) else -1]
        if kg != ke:
            return "order"
        return "time"

    def describe_step(self):
        return self.last_got


CLOSURE = 40


def configs(ctx):
    base_advs = (None, "half", "next", "next-2r")
    full_advs = (None, "half", "next", "next-2r", "next-r/2", "next+eps", "jump")
    out = []
    for mode in ("discover", "instance"):
        # small alphabet, all clock moves (incl. the 0x1000000 s jump), to closure
        out.append((f"{mode}-1key-all-clock-moves",
                    dict(mode=mode, keys=("K1",), addrs=("A1",), ttls=(1, 2, 3, 0xFFFFFE, INF), advs=full_advs,
                         fine=ctx.pick(2, 3), sequences=True), CLOSURE))
        out.append((f"{mode}-2keys-1addr",
                    dict(mode=mode, keys=("K1", "K2"), addrs=("A1",), ttls=(1, 2, INF), advs=base_advs + ("jump",),
                         fine=ctx.pick(1, 2), reject=True), CLOSURE))
        if mode == "instance":
            out.append(("instance-2keys-replacing-listener",
                        dict(mode=mode, keys=("K1", "K2"), addrs=("A1",), ttls=(1, 2, INF), advs=base_advs, fine=1, replacing=True),
                        CLOSURE))
        # the same small alphabet with the clock starting shortly before 0xFFFFFF s (the value of the infinite-TTL marker)
        # and shortly before 2^24 s: deadlines are times, the marker is a duration
        for origin in (0xFFFFFF - 3, 2 ** 24 - 2):
            out.append((f"{mode}-1key-clock-origin-{origin}",
                        dict(mode=mode, keys=("K1",), addrs=("A1",), ttls=(1, 2, 3, INF), advs=(None, "half", "next"),
                             fine=0, origin=float(origin)), CLOSURE))
        if mode == "discover":
            # connection losses reported by the endpoint (one after the other, with offers in between)
            out.append(("discover-2keys-connection-loss",
                        dict(mode=mode, keys=("K1", "K2"), addrs=("A1",), ttls=(1, INF), advs=(None, "half", "next"), fine=0,
                             connlost=True), CLOSURE))
        # two keys, two addresses, the long TTLs
        out.append((f"{mode}-2keys-2addrs",
                    dict(mode=mode, keys=("K1", "K2"), addrs=("A3", "A4"), ttls=(1, 3, 0xFFFFFE, INF), advs=base_advs,
                         fine=1), ctx.pick(3, 4)))
    return out


def check(ctx):
    details = []
    viols = []
    samples = core.Samples()
    for name, cfg, depth in configs(ctx):
        res, vs, det = e1.search(ctx, Sys, cfg, depth, name)
        core.close_pool()
        details.append(det)
        viols += vs
        if res.deepest is not None:
            samples.add(dict(search=name, history=res.deepest[0]))
    cov = e1.summarize(details)
    cov["samples"] = samples.out()
    cov["exhaustive"] = not cov["caps_hit"]
    cov["depth_completed"] = {d["search"]: d["depth_completed"] for d in details}
    return core.finish(ctx, "model_checking", cov, viols, [
        "durations are dyadic so virtual-clock arithmetic is exact; clock resolution 2^-20 s",
        "histories longer than the stated depth and TTL values outside {1, 2, 3, 0xFFFFFE, infinite} are not covered",
        "at an exact tie both 'expired, then present again' and 'no notification' are accepted",
    ])


def replay(ctx, body):
    return e1.replay_case(Sys, body)

