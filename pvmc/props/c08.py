"""C08 - outgoing session ids count 1..0xFFFF per destination; reboot flag clears on wrap (E4).

Real code driven: ServiceDiscoveryProtocol.send_sd (ids/flags decoded from the bytes handed to
transport.sendto by the independent decoder) and SimpleEventgroup notification rounds.
State vector: _SessionStorage.outgoing (saved / restored between transitions)."""
from __future__ import annotations

import ipaddress
import itertools

import someip.header as hdr
import someip.sd as sd
import someip.service as svc

from .. import core, refcodec
from ..vloop import FakeTransport, VLoop
from ..world import MCAST, make_sd

P1 = ("192.0.2.21", 30490)
P2 = ("192.0.2.22", 30490)
P3 = ("2001:db8::23", 30490, 0, 0)
ENTRY = hdr.SOMEIPSDEntry(sd_type=hdr.SOMEIPSDEntryType.FindService, service_id=0x4242, instance_id=0xFFFF,
                          major_version=0xFF, ttl=3, minver_or_counter=0xFFFFFFFF)


class Model:
    """per destination: next id and whether a wrap has happened"""

    def __init__(self):
        self.next = {}
        self.wrapped = {}

    def take(self, dest):
        i = self.next.get(dest, 1)
        flag = not self.wrapped.get(dest, False)
        if i == 0xFFFF:
            self.next[dest] = 1
            self.wrapped[dest] = True
        else:
            self.next[dest] = i + 1
        return flag, i

    def copy(self):
        m = Model()
        m.next = dict(self.next)
        m.wrapped = dict(self.wrapped)
        return m


def save(prot):
    return dict(prot.session_storage.outgoing)


def restore(prot, st):
    o = prot.session_storage.outgoing
    o.clear()
    o.update(st)


def send_and_decode(prot, remote, entries=(ENTRY,)):
    """-> list of (dest, flag, id) decoded from what reached the transport"""
    tr = prot.transport
    n0 = len(tr.sent)
    prot.send_sd(list(entries), remote=remote)
    out = []
    for _, _, data, addr in tr.sent[n0:]:
        for m in refcodec.dec_sd_datagram(data):
            out.append((addr, m["reboot"], m["session"], len(m["entries"])))
    del tr.sent[n0:]
    return out


def phase_cycle(args):
    """(i) one destination through the complete 2 x 65535 cycle; after every step a send to the
    multicast group and an empty send are tried and rolled back"""
    seed, extra = args
    loop = VLoop().install()
    viols = []
    try:
        prot = make_sd(loop)
        model = Model()
        states = set()
        transitions = 0
        total = 2 * 0xFFFF + extra
        for step in range(total):
            st = save(prot)
            states.add(tuple(sorted(st.items(), key=repr)))
            # non-interference probe: multicast send, then rollback
            mm = model.copy()
            got = send_and_decode(prot, None)
            transitions += 1
            want = [(MCAST,) + mm.take(None) + (1,)]
            if got != want:
                viols.append(("interference", "multicast-probe", f"step {step}: got {got} want {want}", step))
            after_probe = save(prot)
            if {k: v for k, v in after_probe.items() if k is not None} != {k: v for k, v in st.items() if k is not None}:
                viols.append(("interference", "table-other-key-changed", f"step {step}", step))
            restore(prot, st)
            # empty send: nothing transmitted, nothing consumed
            got = send_and_decode(prot, P1, entries=())
            transitions += 1
            if got or save(prot) != st:
                viols.append(("empty-send", "transmits" if got else "consumes-id", f"step {step}: sent {got}", step))
                restore(prot, st)
            # the step itself
            got = send_and_decode(prot, P1)
            transitions += 1
            want = [(P1,) + model.take(P1) + (1,)]
            if got != want:
                disc = "flag" if got and got[0][2] == want[0][2] else "id"
                viols.append(("sequence", disc, f"send #{step + 1} to P1: got {got} want {want}", step))
                if len(viols) > 50:
                    break
        return dict(phase="cycle", states=len(states), transitions=transitions, sends=total,
                    viols=viols[:50], nviols=len(viols))
    finally:
        loop.dispose()


def phase_interleave(args):
    """(ii) k destinations positioned shortly before the wrap by real sends, then BFS over the
    joint state space of <= n further sends each (+ empty sends), every order of sends"""
    seed, ndest, nsend = args[:3]
    dests = [None, P1, P2, P3][:ndest]
    if len(args) > 3 and args[3] == "v6scope":
        # one link-local host and port reached through two interfaces / with another flow label: three destinations
        dests = [("fe80::1", 30490, 0, 2), ("fe80::1", 30490, 0, 3), ("fe80::1", 30490, 7, 2)][:ndest]
    loop = VLoop().install()
    viols = []
    try:
        prot = make_sd(loop)
        model = Model()
        start = 0xFFFF - 3 - seed % 2
        # "fresh": the last destination is contacted for the first time inside the explored region, i.e. in some orders
        # only after another destination's wrap
        positioned = dests[:-1] if len(args) > 3 and args[3] == "fresh" else dests
        for d in positioned:
            for _ in range(start - 1):
                got = send_and_decode(prot, d)
                want = [((MCAST if d is None else d),) + model.take(d) + (1,)]
                if got != want:
                    viols.append(("sequence", "id", f"positioning {d}: got {got} want {want}", None))
                    return dict(phase="interleave", states=0, transitions=0, viols=viols, nviols=1)
        init = (save(prot), model)
        seen = {(0,) * ndest: init}
        frontier = [(0,) * ndest]
        transitions = 0
        while frontier:
            nxt = []
            for pos in frontier:
                st, mod = seen[pos]
                for di, d in enumerate(dests):
                    # empty send to d
                    restore(prot, st)
                    got = send_and_decode(prot, d, entries=())
                    transitions += 1
                    if got or save(prot) != st:
                        viols.append(("empty-send", "transmits" if got else "consumes-id", f"pos {pos} dest {d}", pos))
                    if pos[di] >= nsend:
                        continue
                    restore(prot, st)
                    m2 = mod.copy()
                    got = send_and_decode(prot, d)
                    transitions += 1
                    want = [((MCAST if d is None else d),) + m2.take(d) + (1,)]
                    if got != want:
                        disc = "flag" if got and got[0][2] == want[0][2] else "id"
                        viols.append(("sequence", disc, f"joint position {pos}, send to {d}: got {got} want {want}", pos))
                    npos = pos[:di] + (pos[di] + 1,) + pos[di + 1:]
                    nst = save(prot)
                    if npos in seen:
                        # a different order of the same sends must reach the same table
                        if seen[npos][0] != nst:
                            viols.append(("interference", "order-dependent", f"joint position {npos}", npos))
                    else:
                        seen[npos] = (nst, m2)
                        nxt.append(npos)
            frontier = nxt
        return dict(phase="interleave", states=len(seen), transitions=transitions, viols=viols[:50],
                    nviols=len(viols), destinations=ndest, sends_each=nsend, start_id=start)
    finally:
        loop.dispose()


def phase_sendrecv(args):
    """(iv) sends to a unicast peer and to the multicast group interleaved with SD datagrams *received*
    from that peer (normal and with reboot evidence, on both channels): receiving must not disturb the
    outgoing numbering.  BFS over the joint (outgoing, incoming) tables, from shortly before the wrap."""
    seed, nsend = args
    loop = VLoop().install()
    viols = []
    try:
        prot = make_sd(loop)
        model = Model()
        start = 0xFFFF - 2
        for _ in range(start - 1):
            got = send_and_decode(prot, P1)
            want = [(P1,) + model.take(P1) + (1,)]
            if got != want:
                return dict(phase="sendrecv", states=0, transitions=0, viols=[("sequence", "id", f"positioning: {got} != {want}", None)], nviols=1)
        letters = [("send", P1), ("send", None)] + [("recv", mc, flag, sid) for mc in (False, True) for flag in (0, 1) for sid in (1, 2, 7)]
        letters.append(("restart",))  # stop() and start() of the endpoint: the numbering of both directions goes on
        started = [False]

        def snap():
            ss = prot.session_storage
            return (tuple(sorted(ss.outgoing.items(), key=repr)), tuple(sorted(ss.incoming.items(), key=repr)))

        def rest(st):
            ss = prot.session_storage
            ss.outgoing.clear()
            ss.outgoing.update(dict(st[0]))
            ss.incoming = dict(st[1])

        init = (snap(), (0, 0))
        seen = {init: model}
        frontier = [init]
        transitions = 0
        depth = 0
        while frontier and depth < 7:
            depth += 1
            nxt = []
            for node in frontier:
                st, (np1, nm) = node
                mod = seen[node]
                for letter in letters:
                    rest(st)
                    m2 = mod.copy()
                    pos = (np1, nm)
                    if letter[0] == "send":
                        d = letter[1]
                        if (np1 if d == P1 else nm) >= nsend:
                            continue
                        got = send_and_decode(prot, d)
                        want = [((MCAST if d is None else d),) + m2.take(d) + (1,)]
                        transitions += 1
                        if got != want:
                            disc = "flag-after-receive" if got and got[0][2] == want[0][2] else "id-after-receive"
                            viols.append(("sequence", disc, f"send to {d} after receptions: got {got} want {want}", None))
                        pos = (np1 + (d == P1), nm + (d is None))
                    elif letter[0] == "restart":
                        n0 = len(prot.transport.sent)
                        if started[0]:
                            prot.stop()
                            loop.settle()
                        prot.start()
                        started[0] = True
                        loop.settle()
                        del prot.transport.sent[n0:]
                        transitions += 1
                        if snap()[0] != st[0]:  # (what it does to the table of received ids is C07's business)
                            viols.append(("lifecycle", "outgoing-numbering-changed", "stop() / start() of the endpoint changed "
                                          f"the outgoing session table: {st[0]} -> {snap()[0]}", None))
                    else:
                        _, mc, flag, sid = letter
                        data = refcodec.sd_message(sid, [("find", 0x4242, 0xFFFF, 0xFF, 3, 0xFFFFFFFF, (), ())], reboot=bool(flag))
                        n0 = len(prot.transport.sent)
                        prot.datagram_received(data, P1, mc)
                        loop.settle()
                        del prot.transport.sent[n0:]
                        transitions += 1
                    nn = (snap(), pos)
                    if nn not in seen:
                        seen[nn] = m2
                        nxt.append(nn)
                    if len(viols) > 30:
                        break
            frontier = nxt
        return dict(phase="sendrecv", states=len(seen), transitions=transitions, viols=viols[:30], nviols=len(viols),
                    depth=depth, closure=not frontier)
    finally:
        loop.dispose()


def make_service(loop):
    class S(svc.SimpleService):
        service_id = 0x1234
        version_major = 2
        version_minor = 0

    s = S(instance_id=1)
    s.transport = FakeTransport(loop, sockname=("192.0.2.1", 30501))
    eg = svc.SimpleEventgroup(s, id=5)
    s.register_eventgroup(eg)
    return s, eg


def phase_notify(args):
    """(iii) notification path across the wrap; a second subscriber joins at three points"""
    seed, rounds = args[:2]
    plain = len(args) > 2 and args[2] == "plain"  # every round names every event once (another alignment of the wrap)
    loop = VLoop().install()
    viols = []
    try:
        s, eg = make_service(loop)
        nev = 8
        for e in range(nev):
            eg.values[e + 1] = bytes([e])
        ep1 = hdr.IPv4EndpointOption(ipaddress.IPv4Address("192.0.2.31"), hdr.L4Protocols.UDP, 3001)
        ep2 = hdr.IPv6EndpointOption(ipaddress.IPv6Address("2001:db8::32"), hdr.L4Protocols.UDP, 3002)
        joins = {3, rounds // 2, rounds - 40}
        counters = {}
        eg.subscribe(ep1)
        loop.settle()
        n = 0
        for r in range(rounds):
            if r in joins:
                if ep2 in eg.subscribed_endpoints:
                    eg.unsubscribe(ep2)
                # the address lookups of the new subscriber's initial notification and of the round below are answered
                # together, in one loop iteration, in an order that differs from join to join: whatever reaches the wire
                # first must carry the lower ids
                loop.gai_hold = 3
                eg.subscribe(ep2)
                eg.notify_once(list(eg.values.keys()))
                loop.settle()
                order = {0: (0, 0, 0), 1: (2, 0, 0), 2: (1, 1, 0)}[sorted(joins).index(r)]
                for idx in order:
                    if loop.gai_pending:
                        loop.release_gai(min(idx, len(loop.gai_pending) - 1))
                loop.gai_hold = 0
                loop.settle()
                while loop.gai_pending:
                    loop.release_gai(0)
                loop.settle()
            else:
                # most rounds name every event once; some name an event twice or only a few (an application flushing a
                # list of changed events): every named item is a notification with an id of its own
                evs = {5: [1, 2, 1], 9: [2, 2], 13: [3], 14: [8, 7, 8, 7, 8]}.get(-1 if plain else r % 16, list(eg.values.keys()))
                eg.notify_once(evs)
            loop.settle()
            for _, _, data, addr in s.transport.sent:
                msgs, err, _ = refcodec.dec_someip_all(data)
                if err:
                    viols.append(("notify-format", "undecodable", f"round {r}: {err}", r))
                if r not in joins and [m["method"] & 0x7FFF for m in msgs] != evs:
                    viols.append(("notify-sequence", "items-of-a-round", f"round {r} dest {addr}: events on the wire "
                                  f"{[m['method'] & 0x7FFF for m in msgs]}, named {evs}", r))
                for m in msgs:
                    want = counters.get(addr, 0) % 0xFFFF + 1
                    counters[addr] = want
                    n += 1
                    if m["session"] != want:
                        viols.append(("notify-sequence", "id", f"round {r} dest {addr}: id {m['session']} want {want}", r))
                        counters[addr] = m["session"]
            s.transport.sent.clear()
            if len(viols) > 50:
                break
        return dict(phase="notify", states=len(counters), transitions=n, rounds=rounds, viols=viols[:50],
                    nviols=len(viols), per_destination={str(k): v for k, v in counters.items()})
    finally:
        loop.dispose()


def phase_leave(args):
    """(v) a subscriber leaves (as the last one, or not) while the address lookup of a notification for it is pending, and
    comes back: what it then receives continues the numbering of what reached the wire - ids are drawn when a datagram
    is built and sent, never for one that is dropped"""
    seed = args
    viols = []
    n = 0
    for others, kind in itertools.product((False, True), ("initial", "round")):
        loop = VLoop().install()
        try:
            s, eg = make_service(loop)
            for e in range(3):
                eg.values[e + 1] = bytes([e])
            epa = hdr.IPv4EndpointOption(ipaddress.IPv4Address("192.0.2.41"), hdr.L4Protocols.UDP, 3041)
            epb = hdr.IPv4EndpointOption(ipaddress.IPv4Address("192.0.2.42"), hdr.L4Protocols.UDP, 3042)
            if others:
                eg.subscribe(epb)
                loop.settle()
            if kind == "round":
                eg.subscribe(epa)
                loop.settle()
            loop.gai_hold = 2
            if kind == "initial":
                eg.subscribe(epa)
            else:
                eg.notify_once([1, 2, 3])
            loop.settle()
            eg.unsubscribe(epa)
            loop.settle()
            loop.gai_hold = 0
            while loop.gai_pending:
                loop.release_gai(0)
            loop.settle()
            eg.subscribe(epa)
            loop.settle()
            eg.notify_once([1, 2, 3])
            loop.settle()
            counters = {}
            for _, _, data, addr in s.transport.sent:
                msgs, err, _ = refcodec.dec_someip_all(data)
                for m in msgs:
                    want = counters.get(addr, 0) % 0xFFFF + 1
                    counters[addr] = m["session"]
                    n += 1
                    if m["session"] != want:
                        viols.append(("notify-sequence", "gap-after-leave", f"subscriber left during the address lookup of its "
                                      f"{kind} notification (other subscribers: {others}): id {m['session']} to {addr}, "
                                      f"expected {want}", None))
        finally:
            loop.dispose()
    # a transmission to one subscriber fails in the transport (the datagram is lost like on the network): what the other
    # subscriber and later rounds get is made of their own messages only, numbered per destination
    for fail_on in (1, 2, 3):
        loop = VLoop().install()
        try:
            s, eg = make_service(loop)
            for e in range(3):
                eg.values[e + 1] = bytes([e])
            epa = hdr.IPv4EndpointOption(ipaddress.IPv4Address("192.0.2.41"), hdr.L4Protocols.UDP, 3041)
            epb = hdr.IPv4EndpointOption(ipaddress.IPv4Address("192.0.2.42"), hdr.L4Protocols.UDP, 3042)
            real = s.transport.sendto
            calls = [0]

            def flaky(data, addr=None):
                calls[0] += 1
                if calls[0] == fail_on:
                    raise OSError(101, "network unreachable")
                return real(data, addr)

            s.transport.sendto = flaky
            eg.subscribe(epa)
            loop.settle()
            eg.subscribe(epb)
            loop.settle()
            for _ in range(3):
                eg.notify_once([1, 2])
                loop.settle()
            last = {}
            for _, _, data, addr in s.transport.sent:
                msgs, err, _ = refcodec.dec_someip_all(data)
                n += len(msgs)
                ids = [m["session"] for m in msgs]
                if err or ids != list(range(ids[0], ids[0] + len(ids))) or ids[0] <= last.get(addr, 0) or len(msgs) not in (2, 3):
                    viols.append(("notify-sequence", "foreign-or-repeated-ids-after-send-error", f"transport error on send no. {fail_on}: "
                                  f"datagram to {addr} carries ids {ids} (events {[m['method'] & 0x7FFF for m in msgs]}), "
                                  f"previous id for it {last.get(addr, 0)}", None))
                last[addr] = ids[-1] if ids else last.get(addr, 0)
        finally:
            loop.dispose()
    # two service endpoints announced through one SD endpoint, all three sending to one and the same address: each of
    # the three senders numbers what it sends to that address by itself, 1, 2, 3, ...
    for announce_first in (True, False):
        loop = VLoop().install()
        try:
            prot = make_sd(loop)
            prot.start()
            loop.settle()
            svcs = []
            same = ("192.0.2.43", 3043)
            ep = hdr.IPv4EndpointOption(ipaddress.IPv4Address(same[0]), hdr.L4Protocols.UDP, same[1])
            for k in range(2):
                s_, eg_ = make_service(loop)
                eg_.values[1] = bytes([k])
                svcs.append((s_, eg_))
            if announce_first:
                for s_, eg_ in svcs:
                    s_.start_announce(prot.announcer)
            for s_, eg_ in svcs:
                eg_.subscribe(ep)
                loop.settle()
            if not announce_first:
                for s_, eg_ in svcs:
                    s_.start_announce(prot.announcer)
            for rnd in range(3):
                prot.send_sd([ENTRY], remote=same)
                for s_, eg_ in svcs:
                    eg_.notify_once([1])
                    loop.settle()
            loop.settle()
            senders = [("SD endpoint", prot.transport)] + [(f"service endpoint {k}", s_.transport) for k, (s_, eg_) in enumerate(svcs)]
            for who, tr in senders:
                want = 1
                for _, _, data, addr in tr.sent:
                    if addr != same:
                        continue
                    msgs, err, _ = refcodec.dec_someip_all(data)
                    for m in msgs:
                        n += 1
                        if m["session"] != want:
                            viols.append(("sequence", "shared-between-senders", f"{who} (services announced "
                                          f"{'before' if announce_first else 'after'} the subscription): message to {same} carries id "
                                          f"{m['session']}, expected {want}", None))
                            want = m["session"]
                        want = want % 0xFFFF + 1
        finally:
            loop.dispose()
    return dict(phase="leave", states=9, transitions=n, viols=viols[:20], nviols=len(viols))


def phase_reentrant(args):
    """(vi) a transport that hands the datagram to a peer which answers synchronously: while a send is inside sendto(),
    further sends happen - to the same destination, to another one, an empty one; shortly before and across the wrap"""
    seed = args
    viols = []
    n = 0
    for start, nested_kind in itertools.product((1, 0xFFFF - 2), ("same", "other", "empty", "same-twice")):
        loop = VLoop().install()
        try:
            prot = make_sd(loop)
            model = Model()
            for _ in range(start - 1):
                send_and_decode(prot, P1)
                model.take(P1)
            depth = [0]

            def sink(data, addr, transport):
                if depth[0] or addr != P1:
                    return
                depth[0] += 1
                try:
                    if nested_kind in ("same", "same-twice"):
                        prot.send_sd([ENTRY], remote=P1)
                    if nested_kind == "same-twice":
                        prot.send_sd([ENTRY], remote=P1)
                    if nested_kind == "other":
                        prot.send_sd([ENTRY], remote=P2)
                    if nested_kind == "empty":
                        prot.send_sd([], remote=P1)
                finally:
                    depth[0] -= 1

            prot.transport.sink = sink
            prot.transport.sent.clear()
            for _ in range(4):
                prot.send_sd([ENTRY], remote=P1)
            prot.transport.sink = None
            for _, _, data, addr in prot.transport.sent:
                for m in refcodec.dec_sd_datagram(data):
                    n += 1
                    want = model.take(addr)
                    if (m["reboot"], m["session"]) != want:
                        viols.append(("sequence", "id-reentrant-send", f"nested send ({nested_kind}) while a send to {P1} is inside "
                                      f"sendto(), from id {start}: message to {addr} carries {(m['reboot'], m['session'])}, "
                                      f"expected {want}", None))
        finally:
            loop.dispose()
    return dict(phase="reentrant", states=8, transitions=n, viols=viols[:20], nviols=len(viols))


def phase_threads(args):
    """(vii) the sends of one endpoint come from two threads, strictly one after the other (an application thread next to
    the loop's thread - the endpoint guards its numbering with a lock for this): the numbering per destination is one,
    whoever sends.  All 32 patterns of five sends {loop thread, other thread} to one destination, once from id 1 and once
    across the wrap, a second worker thread in half of them.  No concurrency is involved: every send is joined before
    the next one starts"""
    import threading
    seed = args
    viols = []
    n = 0
    for start in (1, 0xFFFF - 2):
        loop = VLoop().install()
        try:
            prot = make_sd(loop)
            model0 = Model()
            for _ in range(start - 1):
                send_and_decode(prot, P1)  # real sends up to the starting id; the table reached is then re-installed per pattern
                model0.take(P1)
            st = save(prot)
            for pattern in itertools.product((0, 1), repeat=5):
                restore(prot, st)
                model = model0.copy()
                prot.transport.sent.clear()
                errors = []

                def work():
                    try:
                        prot.send_sd([ENTRY], remote=P1)
                    except Exception as e:  # noqa: BLE001
                        errors.append(type(e).__name__)

                for i, who in enumerate(pattern):
                    if who:
                        th = threading.Thread(target=work, name=f"app-{i % 2 if sum(pattern) % 2 else 0}")
                        th.start()
                        th.join()
                    else:
                        work()
                if errors:
                    viols.append(("no-exception", "send-from-thread-" + errors[0], f"send_sd raised {errors}", None))
                for _, _, data, addr in prot.transport.sent:
                    for m in refcodec.dec_sd_datagram(data):
                        n += 1
                        want = model.take(addr)
                        if (m["reboot"], m["session"]) != want:
                            viols.append(("sequence", "id-sends-from-two-threads", f"sends to {P1} from id {start} by (0 = loop thread, "
                                          f"1 = another thread, one after the other) {pattern}: message carries "
                                          f"{(m['reboot'], m['session'])}, expected {want}", None))
                if len(prot.transport.sent) != 5:
                    viols.append(("sequence", "count-sends-from-two-threads", f"{len(prot.transport.sent)} datagrams for five sends", None))
        finally:
            loop.dispose()
    return dict(phase="threads", states=64, transitions=n, viols=viols[:20], nviols=len(viols))


def _run(job):
    kind, args = job
    return {"cycle": phase_cycle, "interleave": phase_interleave, "notify": phase_notify,
            "sendrecv": phase_sendrecv, "leave": phase_leave, "reentrant": phase_reentrant, "threads": phase_threads}[kind](args)


def check(ctx):
    jobs = [("cycle", (ctx.seed, 20)), ("interleave", (ctx.seed, 3, 6)), ("notify", (ctx.seed, 8200)), ("notify", (ctx.seed, 8200, "plain")),
            ("sendrecv", (ctx.seed, ctx.pick(4, 6))), ("interleave", (ctx.seed, 3, 4, "v6scope")),
            ("interleave", (ctx.seed, 3, 5, "fresh")), ("interleave", (ctx.seed + 1, 2, 6, "fresh")), ("leave", ctx.seed), ("reentrant", ctx.seed), ("threads", ctx.seed)]
    if ctx.thorough:
        jobs += [("interleave", (ctx.seed, 4, 8)), ("interleave", (ctx.seed + 1, 2, 12)),
                 ("notify", (ctx.seed, 17000)), ("notify", (ctx.seed, 17000, "plain"))]
    out = core.pmap(_run, jobs, 1)
    viols = []
    for (kind, args), o in zip(jobs, out):
        for clause, disc, detail, where in o.pop("viols"):
            viols.append(core.Violation(ctx.prop, clause, disc, dict(phase=kind, args=args, where=where), detail=detail))
    samples = [
        dict(phase="cycle", step="send #65535 to P1 carries (flag=1, id=0xFFFF); send #65536 carries (flag=0, id=1)"),
        dict(phase="interleave", order=["mcast", "P1", "P1", "P2", "mcast", "empty->P2"], start="each destination at 0xFFFC"),
        dict(phase="notify", round=8191, note="ids cross 0xFFFF -> 1 within a round of 8 events"),
    ]
    cov = dict(
        states=sum(o["states"] for o in out), transitions=sum(o["transitions"] for o in out),
        traces_validated_against_impl=sum(o["transitions"] for o in out), samples=samples, phases=out,
        exhaustive=True,
    )
    return core.finish(ctx, "model_checking", cov, viols, [
        "destinations are independent table keys: the full cycle is walked for one unicast destination, the joint "
        "state space of several destinations is explored around the wrap only",
        "no concurrent sends: phase (vii) uses a second thread, but strictly one send after the other (the outgoing lock is uncontended)",
    ])


def replay(ctx, body):
    case = body["case"]
    o = _run((case["phase"], tuple(case["args"])))
    for v in o["viols"][:10]:
        print("FAILS:", v)
    return 1 if o["nviols"] else 0
