"""C07 - peer reboot is detected exactly, per sender and per channel (engine E4).

Real code driven: ServiceDiscoveryProtocol.datagram_received -> message_received ->
_SessionStorage.check_received -> reboot_detected fan-out.  The three components'
reboot_detected methods are replaced by recording spies (the fan-out itself is real).
State vector: everything _SessionStorage holds (saved/restored between transitions).
"""
from __future__ import annotations

import copy
import functools

from .. import core, explore, refcodec
from ..vloop import VLoop
from ..world import make_sd

SENDERS = {"P": ("192.0.2.10", 30490), "Q": ("192.0.2.11", 30490),
           # the same link-local address seen on two interfaces / with another flow label: different senders
           "R": ("fe80::1", 30490, 0, 2), "S": ("fe80::1", 30490, 0, 3), "T": ("fe80::1", 30490, 7, 2)}


def ids_for(seed):
    a = 3 + seed % 997
    b = 0x7FFF - (seed * 7) % 1009
    return (1, 2, a, b, 0xFFFE, 0xFFFF)


class World:
    def __init__(self, with_entry=False):
        self.loop = VLoop().install()
        self.prot = make_sd(self.loop)
        self.calls = []
        self.returns = []
        for comp in ("discovery", "subscriber", "announcer"):
            obj = getattr(self.prot, comp)
            obj.reboot_detected = functools.partial(self._spy, comp)
        ss = self.prot.session_storage
        real = ss.check_received

        def wrapped(sender, multicast, flag, session_id):
            r = real(sender, multicast, flag, session_id)
            self.returns.append(bool(r))
            return r

        ss.check_received = wrapped
        self.with_entry = with_entry
        self.started = False
        # somebody watches: OfferService / StopOfferService entries of the messages reach the real discovery part
        import someip.sd as _sd

        class Raising(_sd.ClientServiceListener):
            """an application listener that fails for one particular service"""

            def service_offered(self, service, source):
                if service.service_id == 0x4344:
                    raise RuntimeError("application listener failed")

        self.prot.discovery.watch_all_services(Raising())
        # the wall clocks are the harness's: they stand still unless a letter says that time passes (the loop's clock is
        # virtual anyway).  The comparison of two messages does not depend on how long ago the first one arrived
        import time as _time
        self._clock = [50000.0]
        self._real_clocks = (_time.monotonic, _time.time, _time.perf_counter)
        _time.monotonic = lambda: self._clock[0]
        _time.perf_counter = lambda: self._clock[0]
        _time.time = lambda: 1.79e9 + self._clock[0]

    def _spy(self, comp, addr):
        self.calls.append((comp, addr))

    def save(self):
        ss = self.prot.session_storage
        st = tuple(sorted(ss.incoming.items()))
        return (st, "started") if self.started else st

    def _lifecycle(self, want):
        if want and not self.started:
            self.prot.start()
        elif self.started and not want:
            self.prot.stop()
        self.started = want
        self.loop.settle()

    def restore(self, state):
        ss = self.prot.session_storage
        started = len(state) == 2 and state[1] == "started"
        if started:
            state = state[0]
        if started != self.started:
            self._lifecycle(started)
        ss.incoming.clear()
        ss.incoming.update(dict(state))

    def send(self, letter):
        if letter[0] == "~":
            # time passes (an hour, a day, a month): nothing else happens
            self.calls.clear()
            self.returns.clear()
            self._clock[0] += {0: 3600.0, 1: 86400.0, 2: 31 * 86400.0}[letter[1]]
            if not self.started:
                self.loop.advance(3600.0)
            self.loop.settle()
            self.prot.transport.sent.clear()
            return list(self.calls), list(self.returns), None
        if letter[0] == "@":
            # lifecycle of the receiving endpoint: start(), or stop() and start() again; what was received before
            # still is "the previous message" of each sender
            self.calls.clear()
            self.returns.clear()
            exc = None
            try:
                if self.started:
                    self._lifecycle(False)
                self._lifecycle(True)
            except Exception as e:  # noqa: BLE001
                exc = type(e).__name__
            self.prot.transport.sent.clear()
            return list(self.calls), list(self.returns), exc
        sender, multicast, flag, sid = letter[:4]
        uflag = letter[4] if len(letter) > 4 else 1  # the SD unicast flag: clear = entries ignored, sender still tracked
        entries = []
        if self.with_entry:
            entries = [("find", 0x4242, 0xFFFF, 0xFF, 3, 0xFFFFFFFF, (), ())]
        ent = letter[6] if len(letter) > 6 else 0
        if ent == 3:
            # an offer the application's listener fails on (each time a new instance, so that it is 'new' every time)
            self.raising_n = getattr(self, "raising_n", 0) + 1
            entries = entries + [("offer", 0x4344, 1 + self.raising_n % 0xFFF0, 1, 0xFFFFFF, 0, (), ())]
        elif ent:
            entries = entries + [("offer", 0x4343, 1, 1, 3 if ent == 1 else 0, 0, (), ())]  # 1: offer, 2: stop-offer
        client = letter[7] if len(letter) > 7 else 0  # the SOME/IP client id of the message: not part of the comparison
        data = refcodec.sd_message(sid, entries, reboot=bool(flag), unicast=bool(uflag), client=client)
        prefix = letter[5] if len(letter) > 5 else 0
        if prefix == 1:
            # an SD message whose payload does not decode (entries array longer than the payload) in front, same datagram
            data = refcodec.enc_someip(0xFFFF, 0x8100, 0, 0x5555, 1, 2, 0, bytes([0xC0, 0, 0, 0, 0, 0, 0, 0x10])) + data
        elif prefix == 2:
            data = refcodec.enc_someip(0x1234, 0x0001, 0, 0x5555, 1, 0, 0, b"not for you") + data
        elif prefix == 4:
            data = data + data  # the same SD message twice in one datagram: two messages, compared one after the other
        elif prefix == 3:
            # ... and behind it
            data = data + refcodec.enc_someip(0xFFFF, 0x8100, 0, 0x5555, 1, 2, 0, bytes([0xC0, 0, 0, 0, 0, 0, 0, 0x10]))
        self.calls.clear()
        self.returns.clear()
        exc = None
        try:
            self.prot.datagram_received(data, SENDERS.get(sender, sender), bool(multicast))
        except Exception as e:  # noqa: BLE001
            exc = type(e).__name__
        self.loop.settle()
        return list(self.calls), list(self.returns), exc

    def close(self):
        import time as _time
        _time.monotonic, _time.time, _time.perf_counter = self._real_clocks
        self.loop.dispose()


def model_step(model: dict, letter):
    """reference rule, straight from the statement"""
    if letter[0] in ("@", "~"):
        return None, dict(model)
    sender, multicast, flag, sid = letter[:4]
    k = (sender, multicast)
    new = dict(model)
    detects = []
    for _ in range(2 if len(letter) > 5 and letter[5] == 4 else 1):
        prev = new.get(k)
        detect = False
        if prev is not None:
            pflag, pid = prev
            detect = bool(flag) and ((not pflag) or sid <= pid)
        new[k] = (flag, sid)
        detects.append(detect)
    return (detects[0] if len(detects) == 1 else tuple(detects)), new


def judge(letter, detect, calls, returns, exc):
    sender = letter[0]
    out = []
    if exc and len(letter) > 6 and letter[6] == 3:
        exc = None  # the application's own exception may propagate; what was received still counts as received
    if detect is None:
        if exc or calls or returns:
            out.append(dict(clause="lifecycle", disc=exc or "spurious-detection", detail=f"start/stop: exc={exc} calls={calls}"))
        return out
    if exc:
        out.append(dict(clause="no-exception", disc=exc, detail=f"datagram_received raised {exc}"))
        return out
    per = detect if isinstance(detect, tuple) else (detect,)
    want = sorted((c, SENDERS.get(sender, sender)) for c in ("announcer", "discovery", "subscriber")) * sum(per)
    want.sort()
    detect = any(per)
    if sorted(calls) != want:
        kind = "missed" if detect and not calls else ("spurious" if not detect else "fanout")
        out.append(dict(clause="detection", disc=kind,
                        detail=f"letter={letter} expected detection={detect} fan-out calls={calls}"))
    if returns != list(per):
        out.append(dict(clause="check-received-return", disc="missed" if detect else "spurious",
                        detail=f"letter={letter} expected {[detect]} got {returns}"))
    return out


_W = {}


def _reset():
    for w in _W.values():
        w.close()
    _W.clear()


def _world(with_entry):
    w = _W.get(with_entry)
    if w is None:
        w = _W[with_entry] = World(with_entry)
    return w


def expand(alphabet, with_entry, node):
    """node = (impl state vector, model tuple).  Every restored state was produced by real
    calls earlier, so it is reachable."""
    w = _world(with_entry)
    impl, modelt = node
    model = dict(modelt)
    out = []
    for letter in alphabet:
        w.restore(impl)
        calls, returns, exc = w.send(letter)
        detect, nmodel = model_step(model, letter)
        viols = judge(letter, detect, calls, returns, exc)
        nimpl = w.save()
        # non-interference: keys other than the letter's own must be untouched
        k_model = {k: v for k, v in nmodel.items() if k != (letter[0], letter[1])}
        if k_model != {k: v for k, v in model.items() if k != (letter[0], letter[1])}:
            raise AssertionError("model bug")
        nnode = (nimpl, tuple(sorted(nmodel.items())))
        out.append((letter, nnode, nnode, viols, ("detect" if (any(detect) if isinstance(detect, tuple) else detect) else "quiet", letter[1], letter[2])))

    return out


def run_word(word, with_entry=False):
    """replayable unit: a fresh world, the word delivered from the initial state"""
    w = World(with_entry)
    try:
        model = {}
        log = []
        viols = []
        for letter in word:
            letter = tuple(letter)
            calls, returns, exc = w.send(letter)
            detect, model = model_step(model, letter)
            log.append(dict(letter=letter, expected_detect=detect, calls=calls, returns=returns, exc=exc))
            viols += judge(letter, detect, calls, returns, exc)
        return viols, log
    finally:
        w.close()


def _search(ctx, name, alphabet, depth, with_entry, samples):
    init = ((), ())
    fn = functools.partial(expand, tuple(alphabet), with_entry)
    # (the cap is far above the 8 k states of the largest search: an implementation whose record of a sender never
    # repeats - e.g. because it holds a time - does not close; the search is cut and reported as capped)
    res = explore.bfs([(init, init)], fn, depth, stride=0, chunksize=8, max_states=20_000_000 if ctx.thorough else 300_000,
                      stop_if=core.unknown_violation_pred(ctx.prop))
    viols = []
    for path, v in res.violations:
        case = dict(search=name, word=[list(x) for x in path], with_entry=with_entry)
        viols.append(core.Violation(ctx.prop, v["clause"], v["disc"], case, detail=v["detail"]))
    if res.deepest:
        samples.add(dict(search=name, word=explore.path_of(res.seen, res.deepest[1])))
    return res, viols


def check(ctx):
    ids = ids_for(ctx.seed)
    samples = core.Samples()
    letters = lambda senders, chans: [(s, m, f, i) for s in senders for m in chans for f in (0, 1) for i in ids]  # noqa: E731
    searches = [
        ("one-sender-both-channels-closure", letters("P", (0, 1)), 10 ** 6, False),
        ("two-senders-one-channel-closure", letters("PQ", (1,)), 10 ** 6, False),
        ("all-48-letters-depth-3", letters("PQ", (0, 1)), 3, False),
        ("one-sender-one-channel-with-entry-closure", letters("Q", (0,)), 10 ** 6, True),
        ("ipv6-same-host-other-scope-depth-3", letters("RST", (1,)), 3, False),
        # messages whose SD unicast flag is clear: their entries are ignored (C03), the sender's reboot is not
        ("one-sender-unicast-flag-set-or-clear-closure", [l + (u,) for l in letters("P", (0, 1)) for u in (0, 1)], 10 ** 6, True),
        # the message shares its datagram with an undecodable SD message / a foreign message in front of it or behind it
        ("one-sender-datagram-neighbours-closure", [l + (1, p) for l in letters("P", (0, 1)) for p in (0, 1, 2, 3, 4)], 10 ** 6, True),
        # the messages carry an offer / a stop-offer of a watched service (what they say must not touch the comparison)
        ("one-sender-offers-and-stopoffers-closure", [l + (1, 0, e) for l in letters("P", (0, 1)) for e in (0, 1, 2, 3)], 10 ** 6, False),
        # the messages carry different SOME/IP client ids (a sender whose client id changes, e.g. with a restart): only
        # the session id and the flag are compared
        ("one-sender-client-ids-closure", [l + (1, 0, 0, c) for l in letters("P", (0, 1)) for c in (0, 1, 2, 0xFFFF)], 10 ** 6, False),
        # time passes between the messages of a sender (an hour, a day, a month on every clock there is)
        ("one-sender-time-passes-closure", letters("P", (0, 1)) + [("~", 0, 0, 0), ("~", 1, 0, 0), ("~", 2, 0, 0)], 10 ** 6, False),
        # the receiving endpoint is started late, or stopped and started again, between messages
        ("one-sender-endpoint-lifecycle-closure", letters("P", (0, 1)) + [("@", 0, 0, 0)], 10 ** 6, False),
    ]
    if ctx.thorough:
        searches.append(("four-keys-closure", letters("PQ", (0, 1)), 10 ** 6, False))
    states = transitions = 0
    viols = []
    details = []
    outcomes = {}
    for name, alpha, depth, with_entry in searches:
        _reset()
        res, vs = _search(ctx, name, alpha, depth, with_entry, samples)
        core.close_pool()
        states += res.states
        transitions += res.transitions
        viols += vs
        for k, v in res.outcomes.items():
            outcomes[k] = outcomes.get(k, 0) + v
        details.append(dict(search=name, letters=len(alpha), states=res.states, transitions=res.transitions,
                            depth_completed=res.depth_completed, closure=res.closure,
                            frontier=res.frontier, levels=res.levels))
    _reset()
    # many senders between two messages of one sender: what was recorded for it stays recorded
    for nother in (16, 255, 256, 257, 300, 1000, 5000):
        for chan in (0, 1):
            word = [("P", chan, 1, 5)] + [((f"198.51.{i // 250}.{i % 250 + 1}", 30490), chan, 1, 1 + i % 7) for i in range(nother)] \
                + [("P", chan, 1, 6)] + [((f"198.51.{100 + i // 250}.{i % 250 + 1}", 30490), 1 - chan, 1, 9) for i in range(nother // 4)] \
                + [("P", chan, 1, 1)]
            vs, _ = run_word(word)
            transitions += len(word)
            for v in vs[:3]:
                viols.append(core.Violation(ctx.prop, v["clause"], v["disc"] + "-after-many-senders",
                                            dict(search="many-senders", many=nother, channel=chan, with_entry=False),
                                            detail=f"{nother} other senders in between: " + v["detail"]))
    # determinism: the deepest word of the last search twice
    word = samples.items[-1]["case"]["word"] if samples.items else []
    a = run_word(word)
    b = run_word(word)
    if a != b:
        raise core_harness("nondeterministic replay")
    n_detect = sum(v for k, v in outcomes.items() if k[0] == "detect")
    cov = dict(
        states=states, transitions=transitions, traces_validated_against_impl=transitions,
        samples=samples.out(), searches=details, session_ids=list(ids),
        distinct_outcomes=len(outcomes), detections_expected=n_detect,
        quiet_expected=transitions - n_detect, exhaustive=all(d["closure"] or "depth-3" in d["search"] for d in details),
        determinism_replays=2,
    )
    return core.finish(ctx, "model_checking", cov, viols, [
        "session id 0 (session handling off) is outside the property's alphabet and not sent",
        "state vector = _SessionStorage.incoming; restored states were produced by real calls",
        "messages are SD notifications built by the independent encoder; the SD unicast flag is set except in the "
        "search that varies it",
    ])


def core_harness(msg):
    from ..vloop import HarnessError
    return HarnessError(msg)


def replay(ctx, body):
    case = body["case"]
    if "many" in case:
        nother, chan = case["many"], case["channel"]
        word = [("P", chan, 1, 5)] + [((f"198.51.{i // 250}.{i % 250 + 1}", 30490), chan, 1, 1 + i % 7) for i in range(nother)] \
            + [("P", chan, 1, 6)] + [((f"198.51.{100 + i // 250}.{i % 250 + 1}", 30490), 1 - chan, 1, 9) for i in range(nother // 4)] \
            + [("P", chan, 1, 1)]
        v1, _ = run_word(word)
        for v in v1:
            print("FAILS:", v)
        return 1 if v1 else 0
    word = [tuple(x) for x in case["word"]]
    v1, log = run_word(word, case.get("with_entry", False))
    v2, _ = run_word(word, case.get("with_entry", False))
    for row in log:
        print(row)
    if v1 != v2:
        print("HARNESS-ERROR: nondeterministic replay")
        return 2
    for v in v1:
        print("FAILS:", v)
    return 1 if v1 else 0
