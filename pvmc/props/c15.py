"""C15 - queued SD entries are sent exactly once, in order, to the right peer, in time (E1).

Real code driven: ServiceAnnouncer.queue_send -> SendCollector -> ServiceDiscoveryProtocol.send_sd,
with a real (non-cyclic) ServiceInstance whose stop / start queue entries of their own.  Entries
queued by the harness are tagged (service id TAG, instance id = tag + 1) so each one is
identifiable on the wire."""
from __future__ import annotations

import ipaddress

import someip.config as cfg_
import someip.header as hdr
import someip.sd as sd

from .. import canon, core, e1, refcodec
from ..world import MCAST, Choice, RandomSeam, make_sd, timings

C = 2.0 ** -7
DEST = {"M": None, "P1": ("192.0.2.121", 30490), "P2": ("192.0.2.122", 30490),
        # destinations that differ from another one in a single component: scope id (P3 / P4), port (P5 / P1)
        "P3": ("fe80::123", 30490, 0, 2), "P4": ("fe80::123", 30490, 0, 3), "P5": ("192.0.2.121", 30491)}
ADDR2NAME = {(MCAST if v is None else v): k for k, v in DEST.items()}
KINDS = ("offer", "stopoffer", "suback")


def sids(seed):
    s = 0x0900 + seed % 0x0600
    return s, s + 0x1000  # tag service id, real instance's service id


def tagged_entry(tagsid, tag):
    kind = KINDS[tag % 3]
    opt = hdr.IPv4EndpointOption(ipaddress.IPv4Address("192.0.2.200"), hdr.L4Protocols.UDP, 10000 + tag)
    if kind == "suback":
        return hdr.SOMEIPSDEntry(sd_type=hdr.SOMEIPSDEntryType.SubscribeAck, service_id=tagsid, instance_id=tag + 1,
                                 major_version=1, ttl=3, minver_or_counter=(1 << 16) | 5)
    return hdr.SOMEIPSDEntry(sd_type=hdr.SOMEIPSDEntryType.OfferService, service_id=tagsid, instance_id=tag + 1,
                             major_version=1, ttl=3 if kind == "offer" else 0, minver_or_counter=9, options_1=(opt,))


def expected_wire(tagsid, tag):
    kind = KINDS[tag % 3]
    if kind == "suback":
        return ("suback", tagsid, tag + 1, 1, 3, (1 << 16) | 5, (), ())
    return ("offer", tagsid, tag + 1, 1, 3 if kind == "offer" else 0, 9, (refcodec.v4("192.0.2.200", 10000 + tag),), ())


class Model:
    def __init__(self):
        self.inflight = {n: [] for n in DEST}  # (tag, queue time)
        self.started = True
        self.real_owed = []  # entries the real instances owe to the wire: (destination, instance, is StopOffer, optional)
        self.ready = True  # instances running and past their first offer ("starting": started, first offer not yet idle)

    def _canon_(self, now):
        return (tuple((d, tuple((tag, now - q) for tag, q in v)) for d, v in sorted(self.inflight.items())), self.started,
                tuple(self.real_owed), self.ready)

    def free_tags(self, n):
        used = {tag for v in self.inflight.values() for tag, _ in v}
        out = []
        t = 0
        while len(out) < n:
            if t not in used:
                out.append(t)
            t += 1
        return out


class Sys(e1.TimedSys):
    half_step = C / 2

    def setup(self, cfg):
        self.tagsid, self.realsid = cfg["sids"]
        self.advs = tuple(cfg["advs"])
        self.max_deviations = cfg.get("deviations", 0)
        self.timeout = cfg["timeout"]
        self.bursts = cfg["bursts"]
        self.dests = cfg["dests"]
        self.lifecycle = cfg.get("lifecycle", False)
        self.seam = RandomSeam(Choice())
        self.seam.__enter__()
        self.prot = make_sd(self.loop, timings(CYCLIC_OFFER_DELAY=0, REPETITIONS_MAX=0, SEND_COLLECTION_TIMEOUT=self.timeout))
        # two real instances: their offers share the multicast queue, and stopping both in one
        # iteration makes stop() work on the same open collector twice
        self.insts = []
        self.iids = (1,) if cfg.get("one_instance") else (1, 2)
        for i in self.iids:
            inst = sd.ServiceInstance(cfg_.Service(self.realsid, i, 1, 0), sd.ServerServiceListener(),
                                      self.prot.announcer, self.prot.timings)
            self.insts.append(inst)
            self.prot.announcer.announce_service(inst)
        self.inst = self.insts[0]
        self.prot.announcer.start()
        self.loop.run_until(4 * C)
        self.prot.transport.sent.clear()
        self.model = Model()
        self.nsent = 0
        self.find_session = 0
        if cfg.get("answering_peer"):
            # a peer that reacts synchronously: while a datagram for P1 is being handed to the transport, one more entry
            # for P1 is requested (e.g. the acknowledgement for a Subscribe that an in-process peer sends at once); it is
            # owed like any other entry.  Reactions to reactions are not generated (tags >= 100 mark them)
            self.prot.transport.sink = self._answering_peer

    def _answering_peer(self, data, addr, transport):
        if ADDR2NAME.get(addr) != "P1":
            return
        try:
            ents = [e for msg in refcodec.dec_sd_datagram(data) for e in msg["entries"]]
        except refcodec.RefError:
            return
        if not any(e[1] == self.tagsid and e[2] - 1 < 100 for e in ents):
            return
        m = self.model
        for _ in range(2):  # two reactions (e.g. the peer subscribes to two eventgroups): each is an entry of its own
            used = {tag for v in m.inflight.values() for tag, _ in v}
            tag = 100
            while tag in used:
                tag += 1
            m.inflight["P1"].append((tag, self.loop.time()))
            self.prot.announcer.queue_send(tagged_entry(self.tagsid, tag), remote=DEST["P1"])

    def close(self):
        self.seam.__exit__(None, None, None)
        super().close()

    def roots(self):
        return [self.prot, self.model] + self.insts

    def key(self):
        c = canon.Canon(self.loop)
        c.abstract_incoming = True  # the peer's FindService always carries the next session id
        return canon.key_of((c.snapshot(self.roots()), self.key_extra()))

    def actions(self):
        acts = []
        for d in self.dests:
            acts.append(("q", d))
            for n in self.bursts:
                acts.append(("burst", d, n))
        if self.lifecycle and not self.held:
            acts.append(("ann-stop",) if self.model.started else ("ann-start",))
            acts.append(("find", "P1"))
            # an SD message from the peer that reveals its reboot: what is queued for it is still owed
            acts.append(("evidence", "P1"))
        return acts

    def do(self, act):
        m = self.model
        ann = self.prot.announcer
        now = self.loop.time()
        if act[0] in ("q", "burst"):
            n = 1 if act[0] == "q" else act[2]
            for tag in m.free_tags(n):
                m.inflight[act[1]].append((tag, now))
                ann.queue_send(tagged_entry(self.tagsid, tag), remote=DEST[act[1]])
        elif act[0] == "ann-stop":
            m.started = False
            # non-cyclic instances: every stop() queues exactly one StopOffer per instance
            # an Offer whose start has not reached the wire yet may never have been queued (the task is
            # cancelled before its first step when stop follows start within two iterations): optional
            m.real_owed = [(d, i, z, True) if not z else (d, i, z, o) for d, i, z, o in m.real_owed]
            m.real_owed += [("M", i, True, False) for i in self.iids]
            m.ready = False
            ann.stop()
        elif act[0] == "ann-start":
            m.started = True
            # initial delay 0, no repetitions, non-cyclic: exactly one Offer per instance per start
            m.real_owed += [("M", i, False, False) for i in self.iids]
            m.ready = "starting"
            ann.start()
        elif act[0] == "find":
            # a unicast FindService from the peer: every ready instance queues an Offer for the peer
            self.find_session += 1
            if m.ready is True:
                m.real_owed += [(act[1], i, False, False) for i in self.iids]
            elif m.ready == "starting":
                m.real_owed += [(act[1], i, False, True) for i in self.iids]  # not specified in this window
            data = refcodec.sd_message(self.find_session, [("find", self.realsid, 0xFFFF, 0xFF, 3, 0xFFFFFFFF, (), ())])
            self.prot.datagram_received(data, DEST[act[1]], False)

        elif act[0] == "evidence":
            data = refcodec.sd_message(max(self.find_session, 1), [])
            self.prot.datagram_received(data, DEST[act[1]], False)
            self.prot.datagram_received(data, DEST[act[1]], False)  # same session id again, reboot flag set

    def after_step(self, ev):
        m = self.model
        r = self.loop._clock_resolution
        sent = self.prot.transport.sent[self.nsent:]
        self.nsent = len(self.prot.transport.sent)
        shape = []
        for t, it, data, addr in sent:
            dname = ADDR2NAME.get(addr)
            try:
                msgs = refcodec.dec_sd_datagram(data)
            except refcodec.RefError as e:
                self.viol("wire", "undecodable", f"datagram to {addr} at {t}: {e}")
                continue
            ents = [e for msg in msgs for e in msg["entries"]]
            shape.append((dname, len(ents)))
            if self.timeout == 0 and len(ents) != 1:
                self.viol("zero-timeout", "batched", f"{len(ents)} entries in one message with collection timeout 0")
            for e in ents:
                if e[1] != self.tagsid:
                    # a real instance's own Offer / StopOffer: exactly once, too
                    cands = [x for x in m.real_owed if x[:3] == (dname, e[2], e[4] == 0)] if e[1] == self.realsid else []
                    hit = next((x for x in cands if not x[3]), cands[0] if cands else None)
                    if hit is not None:
                        idx = m.real_owed.index(hit)
                        del m.real_owed[idx]
                        if e[4] == 0:
                            # the StopOffer closes its run: an optional Offer queued before it that did not
                            # precede it on the wire never comes
                            m.real_owed = [x for j, x in enumerate(m.real_owed)
                                           if not (j < idx and x[1] == e[2] and not x[2] and x[3])]
                    else:
                        self.viol("exactly-once", "real-entry-duplicate-or-unknown",
                                  f"{'StopOffer' if e[4] == 0 else 'Offer'} of real instance {e[2]} on the wire to {dname} "
                                  f"but none is owed (owed {m.real_owed})")
                    continue
                tag = e[2] - 1
                q = m.inflight.get(dname, [])
                if q and q[0][0] == tag:
                    _, qt = q.pop(0)
                    if e != expected_wire(self.tagsid, tag):
                        self.viol("content", "fields", f"tag {tag}: on the wire {e}, queued {expected_wire(self.tagsid, tag)}")
                    if t - qt > self.timeout + r:
                        self.viol("deadline", "late", f"tag {tag} queued at {qt} left at {t} (timeout {self.timeout})")
                    if self.timeout == 0 and t != qt:
                        self.viol("zero-timeout", "not-immediate", f"tag {tag} queued at {qt} left at {t}")
                    continue
                where = [d for d, v in m.inflight.items() if any(x[0] == tag for x in v)]
                if not where:
                    self.viol("exactly-once", "duplicate-or-unknown", f"tag {tag} on the wire to {dname} but not in flight")
                elif dname not in where:
                    self.viol("destination", "wrong-peer", f"tag {tag} queued for {where} left to {dname} ({addr})")
                    for d in where:
                        m.inflight[d] = [x for x in m.inflight[d] if x[0] != tag]
                else:
                    self.viol("order", "overtaken", f"tag {tag} left before {q[0][0]} (destination {dname})")
                    m.inflight[dname] = [x for x in q if x[0] != tag]
        self.last_shape = shape
        self.outcome = tuple(shape)
        if not self.loop.idle() or self.held:
            return
        now = self.loop.time()
        if m.ready == "starting":
            m.ready = True  # idle again: the (non-cyclic, zero-delay) instances have queued their first offer
        if not self.loop.pending_timers():
            # nothing can leave any more: optional entries that did not come are settled
            m.real_owed = [x for x in m.real_owed if not x[3]]
        if any(not x[3] for x in m.real_owed) and not self.loop.pending_timers():
            self.viol("exactly-once", "real-entry-never-sent", f"entries of the real instances still owed with no timer pending: {m.real_owed}")
        for d, v in m.inflight.items():
            for tag, qt in v:
                if now - qt >= self.timeout - r:
                    self.viol("deadline", "not-sent", f"tag {tag} for {d} queued at {qt} still not sent at {now}")
                    break

    def describe_step(self):
        return self.last_shape


CLOSURE = 40


def configs(ctx):
    s = sids(ctx.seed)
    out = []
    advs = (None, "half", "next", "next-2r")
    out.append(("timeout-c-three-dests", dict(sids=s, advs=advs, timeout=C, bursts=(), dests=("M", "P1", "P2"),
                                              deviations=1, fine=1), ctx.pick(4, 6)))
    out.append(("timeout-c-bursts", dict(sids=s, advs=(None, "half", "next"), timeout=C, bursts=(16, 17, 40),
                                         dests=("M", "P1"), deviations=0, fine=0), ctx.pick(3, 4)))
    out.append(("timeout-c-lifecycle", dict(sids=s, advs=advs, timeout=C, bursts=(), dests=("M", "P1"), lifecycle=True,
                                            deviations=1, fine=1), ctx.pick(4, 5)))
    # a single real instance: its StopOffer and its next Offer are neighbours in the multicast queue
    out.append(("timeout-c-lifecycle-one-instance", dict(sids=s, advs=(None, "half", "next"), timeout=C, bursts=(), dests=("M",),
                                                         lifecycle=True, one_instance=True, deviations=1, fine=0), ctx.pick(4, 5)))
    out.append(("timeout-c-aliased-destinations", dict(sids=s, advs=(None, "half", "next"), timeout=C, bursts=(),
                                                       dests=("P3", "P4", "P1", "P5"), deviations=0, fine=0), ctx.pick(3, 4)))
    out.append(("timeout-c-answering-peer", dict(sids=s, advs=(None, "half", "next"), timeout=C, bursts=(), dests=("M", "P1"),
                                                 answering_peer=True, deviations=1, fine=0), ctx.pick(4, 5)))
    out.append(("timeout-0-answering-peer", dict(sids=s, advs=(None,), timeout=0, bursts=(), dests=("M", "P1"), answering_peer=True,
                                                 deviations=0, fine=0), ctx.pick(3, 4)))
    out.append(("timeout-0", dict(sids=s, advs=(None,), timeout=0, bursts=(17,), dests=("M", "P1", "P2"), lifecycle=True,
                                  deviations=1, fine=0), CLOSURE))
    return out


def many_destinations(args):
    """entries for many distinct destinations over the life of one announcer (more than 128, more than 256, ...): each
    is transmitted once, to its own destination, in a message of its own"""
    tagsid, total = args
    from ..vloop import VLoop
    loop = VLoop().install()
    seam = RandomSeam(Choice())
    seam.__enter__()
    viols = []
    try:
        prot = make_sd(loop, timings(CYCLIC_OFFER_DELAY=0, REPETITIONS_MAX=0, SEND_COLLECTION_TIMEOUT=C))
        want = {}
        for i in range(total):
            dest = (f"198.51.{i // 250}.{i % 250 + 1}", 30490)
            want[i] = dest
            prot.announcer.queue_send(tagged_entry(tagsid, i), remote=dest)
            if i % 3 == 2:
                loop.run_until(loop.time() + 2 * C)  # three destinations collect side by side, then all are finished
        loop.run_until(loop.time() + 2 * C)
        seen = {}
        for t, it, data, addr in prot.transport.sent:
            msgs = refcodec.dec_sd_datagram(data)
            ents = [e for m in msgs for e in m["entries"] if e[1] == tagsid]
            if len({e[2] for e in ents}) > 1:
                viols.append(("combined", "many-destinations", f"entries {[e[2] - 1 for e in ents]} share one message to {addr}"))
            for e in ents:
                tag = e[2] - 1
                seen.setdefault(tag, []).append(addr)
        for i, dest in want.items():
            got = seen.get(i, [])
            if got != [dest]:
                disc = "wrong-peer" if got and got[0] != dest else ("never-sent" if not got else "duplicate")
                viols.append(("destination" if got else "exactly-once", disc + "-many-destinations",
                              f"entry no. {i} (of {total} destinations used one after the other) queued for {dest}: sent to {got}"))
                if len(viols) > 5:
                    break
    except Exception as e:  # noqa: BLE001
        viols.append(("no-exception", type(e).__name__ + "-many-destinations", f"{type(e).__name__}: {e}"))
    finally:
        seam.__exit__(None, None, None)
        loop.dispose()
    return total, viols


def check(ctx):
    details, viols = [], []
    samples = core.Samples()
    for total, vs in core.pmap(many_destinations, [(sids(ctx.seed)[0], n) for n in (64, 130, 260, 600, 2000)], 1):
        for clause, disc, detail in vs:
            viols.append(core.Violation(ctx.prop, clause, disc, dict(many_destinations=total, seed=ctx.seed), detail=detail))
    core.close_pool()
    for name, cfg, depth in configs(ctx):
        res, vs, det = e1.search(ctx, Sys, cfg, depth, name)
        core.close_pool()
        details.append(det)
        viols += vs
        if res.deepest is not None:
            samples.add(dict(search=name, history=res.deepest[0]))
    cov = e1.summarize(details)
    cov["samples"] = samples.out()
    cov["exhaustive"] = not cov["caps_hit"]
    cov["depth_completed"] = {d["search"]: d["depth_completed"] for d in details}
    return core.finish(ctx, "model_checking", cov, viols, [
        "harness entries are tagged synthetic offers / stop-offers / acks; the real instance's own entries travel in the "
        "same queues and are ignored by the tag bookkeeping",
        "an entry may leave earlier than its timeout (e.g. when stop() flushes a queue); it must never leave later",
    ])


def replay(ctx, body):
    if "many_destinations" in body["case"]:
        _, vs = many_destinations((sids(body["case"].get("seed", ctx.seed))[0], body["case"]["many_destinations"]))
        for v in vs:
            print("FAILS:", v)
        return 1 if vs else 0
    return e1.replay_case(Sys, body)
