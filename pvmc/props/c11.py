"""C11 - every unicast Subscribe gets exactly one correct Ack or Nack (E3 over inputs, prior
state reached by real earlier messages).

Real code driven: ServiceDiscoveryProtocol.datagram_received -> sd_message_received ->
ServiceAnnouncer.handle_subscribe; the answers are decoded from transport.sendto after the
collection timeout has run out."""
from __future__ import annotations

import itertools

import someip.config as cfg_
import someip.sd as sd

from .. import canon, core, refcodec
from ..vloop import VLoop
from ..world import Choice, RandomSeam, ServerRec, install_log_capture, make_sd, timings

CL = ("192.0.2.91", 30490)
C = 2.0 ** -7
INF = 0xFFFFFF
SERVER_CONFIGS = ("none", "running", "not-started", "stopped", "wild-instance", "wild-major", "two-services", "three")


def sids(seed):
    s = 0x7000 + seed % 0x8000
    return s, s + 3


def server_instances(name, s, s2):
    egs = frozenset({5, 6})
    return {
        "none": [],
        "running": [(s, 1, 1)],
        "not-started": [(s, 1, 1)],
        "stopped": [(s, 1, 1)],
        "wild-instance": [(s, 0xFFFF, 1)],
        "wild-major": [(s, 1, 0xFF)],
        "two-services": [(s, 1, 1), (s2, 1, 1)],
        "three": [(s, 1, 1), (s, 2, 1), (s, 1, 2)],
    }[name], egs


def build_world(name, s, s2, reject, collect, cyclic=0):
    loop = VLoop().install()
    seam = RandomSeam(Choice())
    seam.__enter__()
    prot = make_sd(loop, timings(CYCLIC_OFFER_DELAY=cyclic, REPETITIONS_MAX=0, SEND_COLLECTION_TIMEOUT=collect))
    log = []
    specs, egs = server_instances(name, s, s2)
    listeners = []
    for n, (sid, iid, major) in enumerate(specs):
        lst = ServerRec(f"S{n}", log, loop)
        if reject:
            lst.reject.add(6)
        listeners.append(lst)
        inst = sd.ServiceInstance(cfg_.Service(sid, iid, major, 0, eventgroups=egs), lst, prot.announcer, prot.timings)
        prot.announcer.announce_service(inst)
    if name != "not-started":
        prot.announcer.start()
    loop.run_until(0.5)
    if name == "stopped":
        prot.announcer.stop()
        loop.run_until(1.0)
    prot.transport.sent.clear()
    return loop, seam, prot, log, listeners, specs, egs


def accepts(name, specs, egs, reject, e):
    """reference: does a running instance declare the eventgroup and match the ids?"""
    if name in ("not-started", "stopped"):
        return False, False
    sid, iid, major, eg = e[0], e[1], e[2], e[3]
    known = any(sid == s and (i == 0xFFFF or i == iid) and (m == 0xFF or m == major) and eg in egs
                for s, i, m in specs)
    return known, known and not (reject and eg == 6)


def entry_tuple(e):
    """e = (service, instance, major, eventgroup, counter, ttl, n endpoints, extra option)"""
    sid, iid, major, eg, counter, ttl, nep, extra = e
    eps = tuple(refcodec.v4("192.0.2.91", 4000 + k) for k in range(nep))
    r2 = (("config", (("x", "y"),)),) if extra else ()
    return ("subscribe", sid, iid, major, ttl, (counter << 16) | eg, eps, r2)


def run_case(name, s, s2, reject, multicast, prior, collect, entries, snapshot=False):
    """-> (violations, acks)"""
    loop, seam, prot, log, listeners, specs, egs = build_world(name, s, s2, reject, collect)
    cap = install_log_capture()
    try:
        live = set()  # identities (sid, iid, major, eg, counter, endpoints) accepted so far
        session = 0
        out = []

        def ident(e):
            return (e[0], e[1], e[2], e[3], e[4], e[6])

        if prior == "flushed":
            # the sender asked for the service (FindService answered into its send queue), the announcer was
            # stopped inside the collection window (the queue is flushed) and started again
            if specs and name not in ("not-started", "stopped"):
                session += 1
                sp = specs[0]
                prot.datagram_received(refcodec.sd_message(session, [("find", sp[0], 0xFFFF, 0xFF, 3, 0xFFFFFFFF, (), ())]), CL, False)
                loop.run_until(loop.time() + collect / 2)
                prot.announcer.stop()
                loop.run_until(loop.time() + 4 * C)
                prot.announcer.start()
                loop.run_until(loop.time() + 0.5)
            prot.transport.sent.clear()
            log.clear()
        elif prior != "none":
            p = entries[0]
            pe = p[:5] + (3,) + p[6:] if prior == "same" else p[:4] + ((p[4] + 1) % 16, 3) + p[6:]
            session += 1
            prot.datagram_received(refcodec.sd_message(session, [entry_tuple(pe)]), CL, False)
            loop.run_until(loop.time() + 2 * C)
            known, ok = accepts(name, specs, egs, reject, pe)
            if ok:
                live.add(ident(pe))
            prot.transport.sent.clear()
            log.clear()
        t0 = loop.time()
        session += 1
        data = refcodec.sd_message(session, [entry_tuple(e) for e in entries])
        before = None
        if snapshot:
            before = canon.state_key(loop, [prot] + listeners)
        exc = None
        try:
            prot.datagram_received(data, CL, bool(multicast))
        except Exception as ex:  # noqa: BLE001
            exc = type(ex).__name__
        loop.run_until(t0 + 2 * C)
        if exc:
            out.append(("no-exception", exc, f"datagram_received raised {exc}"))
        acks = []
        for t, it, d, addr in prot.transport.sent:
            try:
                for m in refcodec.dec_sd_datagram(d):
                    for x in m["entries"]:
                        if x[0] == "suback":
                            acks.append((t, addr, x[1], x[2], x[3], x[5] & 0xFFFF, (x[5] >> 16) & 0xF, x[4]))
                        else:
                            out.append(("transmission", "other-entry", f"unexpected entry on the wire {x[:6]}"))
            except refcodec.RefError as ex:
                out.append(("wire", "undecodable", str(ex)))
        if multicast:
            if acks:
                out.append(("multicast", "answered", f"Subscribe over multicast was answered: {acks}"))
            if log:
                out.append(("multicast", "listener-called", f"listener callbacks {[(x[3]) for x in log]}"))
            return out, acks, before
        # expected answers, entry by entry (in order; the live table evolves)
        want = []
        for e in entries:
            known, ok = accepts(name, specs, egs, reject, e)
            ttl = e[5]
            if ttl == 0:
                if known:
                    live.discard(ident(e))
                    continue  # StopSubscribe for a known eventgroup: no answer
                want.append(("optional-nack",) + e[:5])
                continue
            if ident(e) in live:
                want.append(("ack", e[0], e[1], e[2], e[3], e[4], ttl))
            elif ok:
                live.add(ident(e))
                want.append(("ack", e[0], e[1], e[2], e[3], e[4], ttl))
            else:
                want.append(("ack", e[0], e[1], e[2], e[3], e[4], 0))
        rest = list(acks)
        for w in want:
            if w[0] == "optional-nack":
                hit = next((a for a in rest if a[2:7] == w[1:6] and a[7] == 0), None)
                if hit:
                    rest.remove(hit)
                continue
            hit = next((a for a in rest if a[2:7] == w[1:6]), None)
            if hit is None:
                out.append(("answer", "missing", f"no SubscribeAck for {w}; acks {acks}"))
                continue
            rest.remove(hit)
            if hit[7] != w[6]:
                disc = "nack-instead-of-ack" if hit[7] == 0 else ("ack-instead-of-nack" if w[6] == 0 else "ttl")
                out.append(("answer", disc, f"SubscribeAck ttl {hit[7]} for {w}"))
            if hit[1] != CL:
                out.append(("answer", "destination", f"SubscribeAck sent to {hit[1]}"))
            if not (t0 <= hit[0] <= t0 + collect):
                out.append(("answer", "time", f"SubscribeAck left at {hit[0]}, subscribe received at {t0}"))
        for a in rest:
            out.append(("answer", "extra", f"unexpected SubscribeAck {a}; expected {want}"))
        if cap.records:
            out.append(("swallowed-exception", cap.records[0][1], str(cap.records[0])))
        ex = loop.collect_exceptions()
        if ex:
            out.append(("loop-exception", str(ex[0][2]), str(ex[:2])))
        return out, acks, before
    finally:
        seam.__exit__(None, None, None)
        loop.dispose()


def multicast_twin(name, s, s2, reject, prior, collect, entries):
    """state after a multicast Subscribe == state after the same message without entries"""
    keys = []
    for ents in (entries, []):
        loop, seam, prot, log, listeners, specs, egs = build_world(name, s, s2, reject, collect)
        try:
            session = 0
            if prior != "none":
                p = entries[0]
                pe = p[:5] + (3,) + p[6:]
                session += 1
                prot.datagram_received(refcodec.sd_message(session, [entry_tuple(pe)]), CL, False)
                loop.run_until(loop.time() + 2 * C)
            session += 1
            prot.datagram_received(refcodec.sd_message(session, [entry_tuple(e) for e in ents]), CL, True)
            loop.run_until(loop.time() + 2 * C)
            keys.append((canon.state_key(loop, [prot] + listeners), len(log), len(prot.transport.sent)))
        finally:
            seam.__exit__(None, None, None)
            loop.dispose()
    return keys[0] == keys[1]


def domain(thorough, s, s2):
    counters = (0, 1, 15) if not thorough else (0, 1, 7, 15)
    ttls = (0, 1, 3, INF) if not thorough else (0, 1, 3, 0xFFFF, 0x10000, 0xFFFFFE, INF)
    insts = (1, 2) if not thorough else (1, 2, 0xFFFF)
    majors = (1, 2) if not thorough else (1, 2, 0xFF)
    dom = list(itertools.product((s, s2), insts, majors, (5, 6, 7), counters, ttls, (0, 1, 2), (0, 1)))
    if not thorough:
        # requests that carry the wildcard values themselves (a wildcard only counts on the configured side)
        dom += [(s, i, m, eg, 0, ttl, 1, 0) for i, m in ((0xFFFF, 1), (1, 0xFF), (0xFFFF, 0xFF), (0xFFFF, 2), (2, 0xFF))
                for eg in (5, 6, 7) for ttl in (0, 3, INF)]
    return dom


def part(args):
    name, s, s2, reject, multicast, prior, collect, thorough = args
    ents = domain(thorough, s, s2)
    res = []
    n = 0
    classes = {}
    for e in ents:
        if prior != "none" and e[5] == 0 and False:
            continue
        out, acks, _ = run_case(name, s, s2, reject, multicast, prior, collect, [e])
        n += 1
        k = (len(acks), tuple(sorted(a[7] != 0 for a in acks)))
        classes[k] = classes.get(k, 0) + 1
        for clause, disc, detail in out:
            res.append((clause, disc, detail, dict(server=name, reject=reject, multicast=multicast, prior=prior,
                                                   collect=collect, entries=[e], sids=(s, s2))))
        if multicast and e[6] == 1 and e[7] == 0 and e[4] == 0:
            n += 1
            if not multicast_twin(name, s, s2, reject, prior, collect, [e]):
                res.append(("multicast", "state-changed", f"state differs from the twin run without the entry: {e}",
                            dict(server=name, reject=reject, multicast=1, prior=prior, collect=collect, entries=[e],
                                 sids=(s, s2), twin=True)))
    return n, res, classes


def shared_layout_message(session, entries):
    """the same entries with a de-duplicated option array: runs that hold the same options point at the
    same slots (legal, and what the library's own encoder emits)"""
    options = []
    raw = []
    for kind, service, instance, major, ttl, last, r1, r2 in entries:
        idx = []
        for run in (r1, r2):
            if not run:
                idx.append((0, 0))
                continue
            pos = next((i for i in range(len(options) - len(run) + 1) if tuple(options[i:i + len(run)]) == tuple(run)), None)
            if pos is None:
                pos = len(options)
                options.extend(run)
            idx.append((pos, len(run)))
        raw.append(dict(type=refcodec.ENTRY_CODES[kind], i1=idx[0][0], n1=idx[0][1], i2=idx[1][0], n2=idx[1][1],
                        service=service, instance=instance, major=major, ttl=ttl, last=last))
    return refcodec.enc_someip(0xFFFF, 0x8100, 0, session, 1, 2, 0, refcodec.enc_sd(0xC0, raw, options))


def part_shared(args):
    """Subscribe entries whose two option runs share options (same endpoint in both runs; run 2 a suffix of
    run 1), alone and next to a second entry that shares them too"""
    name, s, s2, reject, collect = args
    res = []
    n = 0
    ep1, ep2 = refcodec.v4("192.0.2.91", 4000), refcodec.v4("192.0.2.91", 4001)
    layouts = [((ep1,), (ep1,)), ((ep1, ep2), (ep2,)), ((ep1, ep2), (ep1, ep2)), ((ep1,), ())]
    for (r1, r2), eg, ttl, two in itertools.product(layouts, (5, 6, 7), (3, 0), (False, True)):
        ents = [("subscribe", s, 1, 1, ttl, eg, r1, r2)]
        if two:
            ents.append(("subscribe", s, 1, 1, 3, (1 << 16) | 5, r1, r2))
        loop, seam, prot, log, listeners, specs, egs = build_world(name, s, s2, reject, collect)
        try:
            t0 = loop.time()
            prot.datagram_received(shared_layout_message(1, ents), CL, False)
            loop.run_until(t0 + 2 * C)
            acks = []
            for t, it, d, addr in prot.transport.sent:
                for m in refcodec.dec_sd_datagram(d):
                    acks += [(x[5] & 0xFFFF, (x[5] >> 16) & 0xF, x[4]) for x in m["entries"] if x[0] == "suback"]
            n += 1
            for e in ents:
                if e[4] == 0:
                    continue
                eg_, cnt = e[5] & 0xFFFF, (e[5] >> 16) & 0xF
                known, ok = accepts(name, specs, egs, reject, (e[1], e[2], e[3], eg_))
                want = e[4] if ok else 0
                if (eg_, cnt, want) not in acks:
                    res.append(("answer", "missing-shared-option-runs",
                                f"Subscribe whose option runs share options ({len(r1)}+{len(r2)} references): no SubscribeAck "
                                f"({eg_}, {cnt}, ttl {want}); acks {acks}",
                                dict(server=name, reject=reject, shared=True, eg=eg_, ttl=e[4], runs=(len(r1), len(r2)), sids=(s, s2))))
        except Exception as ex:  # noqa: BLE001
            res.append(("no-exception", type(ex).__name__, str(ex), dict(server=name, shared=True, sids=(s, s2))))
        finally:
            seam.__exit__(None, None, None)
            loop.dispose()
    return n, res, {}


def part_pairs(args):
    name, s, s2, reject, collect = args
    red = list(itertools.product((5, 6, 7), (0, 3), (0, 1)))  # eventgroup x ttl x counter
    res = []
    n = 0
    for a, b in itertools.product(red, repeat=2):
        ea = (s, 1, 1, a[0], a[2], a[1], 1, 0)
        eb = (s, 1, 1, b[0], b[2], b[1], 1, 0)
        out, acks, _ = run_case(name, s, s2, reject, 0, "none", collect, [ea, eb])
        n += 1
        for clause, disc, detail in out:
            res.append((clause, disc, detail, dict(server=name, reject=reject, multicast=0, prior="none", collect=collect,
                                                   entries=[ea, eb], sids=(s, s2))))
    return n, res, {}


def part_change(args):
    """two datagrams from one sender inside one send-collection window, the first with a Subscribe whose answer is
    still being collected when the second arrives; in between or with the second something changes: the listener's
    policy, the announcer being started, or the second datagram reveals that the sender rebooted (on either
    channel, with or without a Subscribe of its own).  Every Subscribe keeps its one answer, in order."""
    s, s2, scenario, gap = args
    res = []
    name = "not-started" if scenario == "start-between" else "running"
    bounced = scenario.split("+")[0] in ("announcer-bounced-before", "service-bounced-before", "endpoint-bounced-before")
    cyclic = 1 if scenario.endswith("+cyclic") else 0  # (bounce scenarios: with instances that offer cyclically, too)
    scenario = scenario.split("+")[0]
    loop, seam, prot, log, listeners, specs, egs = build_world(name, s, s2, scenario == "reject-then-accept", C, cyclic)
    try:
        e1_ = (s, 1, 1, 6, 0, 3, 1, 0)
        ent2 = entry_tuple(e1_)
        second = dict(session=2, multicast=False, entries=None)
        if scenario == "reboot-evidence-multicast-empty":
            prot.datagram_received(refcodec.sd_message(5, []), CL, True)  # the sender is known on the multicast channel
            loop.run_until(loop.time() + 4 * C)
            prot.transport.sent.clear()
        if scenario in ("announcer-bounced-before", "service-bounced-before", "endpoint-bounced-before"):
            # the instance was stopped and started again with no loop iteration in between, some time ago (gap * 64 s, or
            # one iteration, ago): it is a running instance like any other
            if scenario == "announcer-bounced-before":
                prot.announcer.stop()
                prot.announcer.start()
            elif scenario == "endpoint-bounced-before":
                prot.stop()
                prot.start()
            else:
                inst0 = prot.announcer.announcing_services[0]
                prot.announcer.stop_announce_service(inst0)
                prot.announcer.announce_service(inst0)
            if gap:
                loop.run_until(loop.time() + gap * 64)
            else:
                loop.iterate()
            prot.transport.sent.clear()
        t0 = loop.time()
        prot.datagram_received(refcodec.sd_message(1, [entry_tuple(e1_)]), CL, False)
        if gap:
            loop.run_until(t0 + gap)
        if scenario in ("announcer-bounced-before", "service-bounced-before", "endpoint-bounced-before"):
            second["entries"] = []
            want = [3]
        elif scenario == "reject-then-accept":
            listeners[0].reject.discard(6)
            want = [0, 3]
        elif scenario == "accept-then-reject":
            listeners[0].reject.add(6)
            # another endpoint: a new subscription (a refresh of the accepted one would not ask the listener)
            ent2 = ent2[:6] + ((refcodec.v4("192.0.2.92", 4100),), ())
            want = [3, 0]
        elif scenario == "start-between":
            prot.announcer.start()
            want = [0, 3]
        elif scenario in ("announcer-stopped-right-after", "service-withdrawn-right-after"):
            # the Subscribe was received by a running instance; what happens to the instance afterwards does not take the
            # answer back
            if scenario == "announcer-stopped-right-after":
                prot.announcer.stop()
            else:
                prot.announcer.stop_announce_service(prot.announcer.announcing_services[0])
            second["entries"] = []
            second["session"] = 2
            want = [3]
        elif scenario == "reboot-evidence-subscribe":
            second["session"] = 1  # reboot flag set, session id not increased: the sender rebooted
            want = [3, 3]
        elif scenario == "reboot-evidence-empty":
            second.update(session=1, entries=[])
            want = [3]
        else:
            second.update(session=5, entries=[], multicast=True)
            want = [3]
        ents = [ent2] if second["entries"] is None else second["entries"]
        prot.datagram_received(refcodec.sd_message(second["session"], ents), CL, second["multicast"])
        loop.run_until(t0 + 4 * C)
        acks = []
        for t, it, d, addr in prot.transport.sent:
            for m in refcodec.dec_sd_datagram(d):
                acks += [(x[5] & 0xFFFF, (x[5] >> 16) & 0xF, x[4], addr, t) for x in m["entries"] if x[0] == "suback"]
        got = [a[2] for a in acks if a[0] == 6 and a[1] == 0]
        case = dict(change=scenario + ("+cyclic" if cyclic else ""), gap=gap, sids=(s, s2))
        if got != want:
            disc = "missing" if len(got) < len(want) else ("extra" if len(got) > len(want) else "verdict")
            res.append(("answer", f"{disc}-{'reboot' if 'reboot' in scenario else 'verdict-changed'}-within-window",
                        f"{scenario}, second datagram {gap} s after the first (collection window {C}): SubscribeAck TTLs "
                        f"on the wire {got}, expected {want}", case))
        if any(a[3] != CL for a in acks):
            res.append(("answer", "destination", f"acks {acks}", case))
        if any(not (t0 <= a[4] <= t0 + gap + C) for a in acks):
            res.append(("answer", "time", f"acks {acks}", case))
    except Exception as ex:  # noqa: BLE001
        res.append(("no-exception", type(ex).__name__, str(ex), dict(change=scenario, gap=gap, sids=(s, s2))))
    finally:
        seam.__exit__(None, None, None)
        loop.dispose()
    return 1, res, {}


def part_neighbours(args):
    """a Subscribe entry that shares its SD message with entries of other kinds (SubscribeAck / Nack for a subscription
    this endpoint does not hold, FindService, Offer, StopOffer) in front of it, behind it, on both sides"""
    name, s, s2, reject, collect = args
    res = []
    n = 0
    others = {"ack": ("suback", 0x7171, 1, 1, 3, 5, (), ()), "nack": ("suback", s, 1, 1, 0, (1 << 16) | 5, (), ()),
              "find": ("find", 0x7172, 0xFFFF, 0xFF, 3, 0xFFFFFFFF, (), ()),
              "offer": ("offer", 0x7173, 1, 1, 3, 0, (refcodec.v4("192.0.2.93", 4200),), ()),
              "stopoffer": ("offer", 0x7173, 1, 1, 0, 0, (refcodec.v4("192.0.2.93", 4200),), ())}
    for kind, layout, eg in itertools.product(sorted(others), ("front", "behind", "both"), (5, 6, 7)):
        sub = entry_tuple((s, 1, 1, eg, 0, 3, 1, 0))
        o = others[kind]
        ents = {"front": [o, sub], "behind": [sub, o], "both": [o, sub, o]}[layout]
        loop, seam, prot, log, listeners, specs, egs = build_world(name, s, s2, reject, collect)
        try:
            t0 = loop.time()
            exc = None
            try:
                prot.datagram_received(refcodec.sd_message(1, ents), CL, False)
            except Exception as ex:  # noqa: BLE001
                exc = type(ex).__name__
            loop.run_until(t0 + 2 * C)
            acks = []
            for t, it, d, addr in prot.transport.sent:
                for m in refcodec.dec_sd_datagram(d):
                    acks += [(x[5] & 0xFFFF, (x[5] >> 16) & 0xF, x[4], addr) for x in m["entries"] if x[0] == "suback"]
            n += 1
            known, ok = accepts(name, specs, egs, reject, (s, 1, 1, eg))
            want = [(eg, 0, 3 if ok else 0, CL)]
            case = dict(server=name, reject=reject, neighbour=kind, layout=layout, eg=eg, collect=collect, sids=(s, s2))
            if exc:
                res.append(("no-exception", exc, f"message with a {kind} entry next to a Subscribe: {exc} escaped", case))
            elif acks != want:
                res.append(("answer", "missing-with-neighbour-entry" if not acks else "wrong-with-neighbour-entry",
                            f"Subscribe for eventgroup {eg} with a {kind} entry {layout} in the same message: SubscribeAcks {acks}, "
                            f"expected {want}", case))
        finally:
            seam.__exit__(None, None, None)
            loop.dispose()
    return n, res, {}


def part_many(args):
    """one SD message with many Subscribe entries (as many as a datagram of 1400 / 4000 / 65000 bytes holds, and the
    counts around them): every one of them gets its own answer"""
    name, s, s2, collect, count = args
    res = []
    loop, seam, prot, log, listeners, specs, egs = build_world(name, s, s2, 0, collect)
    try:
        ents = []
        for i in range(count):
            eg = (5, 6)[i % 2] if i % 5 else 100 + i  # mostly known eventgroups, every fifth an unknown one
            ents.append(("subscribe", s, 1, 1, 3, ((i % 16) << 16) | eg, (refcodec.v4("192.0.2.91", 4000 + (i // 32) % 200),), ()))
        t0 = loop.time()
        exc = None
        data = shared_layout_message(1, ents)  # (one shared option array: at most 200 distinct endpoint options)
        try:
            prot.datagram_received(data, CL, False)
        except Exception as ex:  # noqa: BLE001
            exc = type(ex).__name__
        loop.run_until(t0 + 2 * C)
        acks = []
        for t, it, d, addr in prot.transport.sent:
            for m in refcodec.dec_sd_datagram(d):
                acks += [(x[5] & 0xFFFF, (x[5] >> 16) & 0xF) for x in m["entries"] if x[0] == "suback"]
        want = [(e[5] & 0xFFFF, (e[5] >> 16) & 0xF) for e in ents]
        case = dict(server=name, many=count, collect=collect, sids=(s, s2))
        if exc:
            res.append(("no-exception", f"many-entries-{exc}", f"{count} Subscribe entries in one message: {exc} escaped", case))
        if sorted(acks) != sorted(want):
            res.append(("answer", "missing-many-entries" if len(acks) < len(want) else "extra-many-entries",
                        f"{count} Subscribe entries in one message: {len(acks)} SubscribeAck entries on the wire", case))
    finally:
        seam.__exit__(None, None, None)
        loop.dispose()
    return 1, res, {}


def check(ctx):
    s, s2 = sids(ctx.seed)
    jobs = [(name, s, s2, reject, mc, prior, col, ctx.thorough)
            for name in SERVER_CONFIGS for reject in (0, 1) for mc in (0, 1)
            for prior in ("none", "same", "other", "flushed") for col in (0, C)
            if not (prior == "flushed" and (col == 0 or mc))]
    out = core.pmap(part, jobs, 1)
    pj = [(name, s, s2, reject, col) for name in ("running", "three", "stopped", "wild-instance")
          for reject in (0, 1) for col in (0, C)]
    out2 = core.pmap(part_pairs, pj, 1) + core.pmap(part_shared, pj, 1)
    out2 += core.pmap(part_change, [(s, s2, sc, gap) for sc in ("reject-then-accept", "accept-then-reject", "start-between", "announcer-stopped-right-after",
                                               "service-withdrawn-right-after", "reboot-evidence-subscribe",
                                               "reboot-evidence-empty", "reboot-evidence-multicast-empty",
                                               "announcer-bounced-before", "service-bounced-before", "endpoint-bounced-before",
                                               "announcer-bounced-before+cyclic", "service-bounced-before+cyclic",
                                               "endpoint-bounced-before+cyclic")
                                    for gap in (0, C / 4, C / 2, C - 2.0 ** -10)], 4)
    out2 += core.pmap(part_neighbours, pj, 1)
    out2 += core.pmap(part_many, [(name, s, s2, col, count) for name in ("running", "stopped") for col in (0, C)
                                  for count in (16, 17, 64, 65, 85, 86, 87, 128, 250, 255, 256, 1000, 4000)], 4)
    viols = []
    classes = {}
    n = 0
    for cnt, res, cl in out + out2:
        n += cnt
        for clause, disc, detail, case in res:
            viols.append(core.Violation(ctx.prop, clause, disc, case, detail=detail))
        for k, v in cl.items():
            classes[k] = classes.get(k, 0) + v
    samples = core.Samples()
    samples.add(dict(server="three", reject=1, multicast=0, prior="same", collect=C,
                     entries=[(s, 2, 1, 6, 15, 3, 2, 1)]), "rejectable eventgroup, refresh of a live subscription")
    samples.add(dict(server="running", entries=[(s, 1, 1, 5, 0, 0, 1, 0), (s, 1, 1, 5, 0, 3, 1, 0)]), "StopSubscribe+Subscribe")
    nontrivial = sum(v for k, v in classes.items() if k[0] > 0)
    cov = dict(
        evaluations=n, distinct_nontrivial=nontrivial, exhaustive=True,
        rule="full product: Subscribe entry (2 services x 2 instances x 2 majors x 3 eventgroups x 3 counters x 4 TTLs x "
             "0/1/2 endpoints x extra option) x 8 server configurations x listener accept/reject x channel x prior state "
             "{none, same subscription live, other counter live} x collection timeout {0, c}; plus all ordered pairs of "
             "entries over a reduced domain in one message; every case is a distinct input; non-trivial = at least one "
             "SubscribeAck entry was produced",
        samples=samples.out(), outcome_classes={str(k): v for k, v in sorted(classes.items(), key=repr)},
        partitions=len(jobs) + len(pj),
    )
    return core.finish(ctx, "exploration", cov, viols, [
        "a StopSubscribe for an unknown eventgroup / stopped instance is answered with a Nack by the code; the statement "
        "does not specify that case and it is not judged",
        "the harness listener decides by eventgroup id only",
    ])


def replay(ctx, body):
    c = body["case"]
    s, s2 = c["sids"]
    if "neighbour" in c:
        _, res, _ = part_neighbours((c["server"], s, s2, c["reject"], c["collect"]))
        res = [o for o in res if o[3]["neighbour"] == c["neighbour"] and o[3]["layout"] == c["layout"] and o[3]["eg"] == c["eg"]]
        for o in res:
            print("FAILS:", o[:3])
        return 1 if res else 0
    if "many" in c:
        _, res, _ = part_many((c["server"], s, s2, c["collect"], c["many"]))
        for o in res:
            print("FAILS:", o[:3])
        return 1 if res else 0
    if "change" in c:
        _, res, _ = part_change((s, s2, c["change"], c["gap"]))
        for o in res:
            print("FAILS:", o[:3])
        return 1 if res else 0
    if c.get("shared"):
        print("re-running the shared-option-run cases of this server configuration")
        res = []
        for col in (0, C):
            res += part_shared((c["server"], s, s2, c.get("reject", 0), col))[1]
        for o in res[:5]:
            print("FAILS:", o[:3])
        return 1 if res else 0
    ents = [tuple(e) for e in c["entries"]]
    if c.get("twin"):
        ok = multicast_twin(c["server"], s, s2, c["reject"], c["prior"], c["collect"], ents)
        print("twin states equal:", ok)
        return 0 if ok else 1
    out, acks, _ = run_case(c["server"], s, s2, c["reject"], c["multicast"], c["prior"], c["collect"], ents)
    out2, _, _ = run_case(c["server"], s, s2, c["reject"], c["multicast"], c["prior"], c["collect"], ents)
    print("acks:", acks)
    if out != out2:
        print("HARNESS-ERROR: nondeterministic replay")
        return 2
    for o in out:
        print("FAILS:", o)
    return 1 if out else 0
