"""C01 - SOME/IP message encoding round-trips and matches the wire layout (engine E3)."""
from __future__ import annotations

import itertools

import someip.header as hdr
import someip.sd as sd

from .. import core, refcodec

B16 = (0, 1, 0x00FF, 0x0100, 0x7FFF, 0x8000, 0xFFFE, 0xFFFF)
PLENS = (0, 1, 2, 7, 8, 9, 15, 16, 17, 255, 256, 257, 65527, 65528, 65529, 65535, 65536)


def payload(n, salt=0):
    return bytes((i * 131 + 7 + salt) & 0xFF for i in range(n))


def mk(service, method, client, session, iface, mtype, code, pl):
    return hdr.SOMEIPHeader(service_id=service, method_id=method, client_id=client, session_id=session,
                            interface_version=iface, message_type=hdr.SOMEIPMessageType(mtype),
                            return_code=hdr.SOMEIPReturnCode(code), payload=pl)


_OTHER = mk(0x4321, 0x0001, 2, 3, 4, 0x00, 0, b"another message")


def one(fields, suffix):
    """-> list of (clause, disc, detail)"""
    service, method, client, session, iface, mtype, code, pl = fields
    out = []
    msg = mk(*fields)
    try:
        b = msg.build()
    except Exception as e:  # noqa: BLE001
        return [("build", "raises", f"{type(e).__name__}: {e}")]
    ref = refcodec.enc_someip(service, method, client, session, iface, mtype, code, pl)
    _OTHER.build()  # encoding another message must not change what build() returned for this one
    if bytes(b) != ref:
        out.append(("layout", "bytes-differ", f"build()={bytes(b)[:24].hex()}.. reference={ref[:24].hex()}.."))
    try:
        back, rest = hdr.SOMEIPHeader.parse(bytes(b) + suffix)
    except Exception as e:  # noqa: BLE001
        out.append(("roundtrip", "parse-raises", f"{type(e).__name__}: {e}"))
        return out
    if back != msg:
        out.append(("roundtrip", "message-differs", f"{back!r:.200}"))
    if bytes(rest) != suffix:
        out.append(("roundtrip", "suffix-differs", f"rest len {len(rest)} expected {len(suffix)}"))
    return out


class Rec(sd.SOMEIPDatagramProtocol):
    def __init__(self):
        super().__init__()
        self.got = []

    def message_received(self, someip_message, addr, multicast):
        self.got.append((someip_message, addr, multicast))


def menu():
    inner = refcodec.enc_someip(0x1234, 0x5678, 1, 2, 1, 0, 0, b"xy")
    return [
        (0x1111, 0x0001, 0x0A0B, 0x0C0D, 1, 0x00, 0, b""),
        (0x2222, 0x8001, 0, 1, 2, 0x02, 0, b"\x5a"),
        (0x3333, 0x0002, 3, 4, 3, 0x80, 0, inner),
        (0x4444, 0x0003, 5, 6, 4, 0x01, 0, payload(65528)),
        (0x5555, 0x0004, 7, 8, 5, 0x81, 9, b"err"),
        (0xFFFF, 0x8100, 0, 9, 1, 0x02, 0, bytes([0xC0, 0, 0, 0, 0, 0, 0, 0, 0, 0, 0, 0])),
        # the two TCP "magic cookie" messages: ordinary messages as far as a datagram is concerned
        (0xFFFF, 0x0000, 0xDEAD, 0xBEEF, 1, 0x01, 0, b""),
        (0xFFFF, 0x8000, 0xDEAD, 0xBEEF, 1, 0x02, 0, b""),
    ]


TAILS = (b"", b"\x00", payload(15, 3), b"\x11\x11\x00\x01\x00\x00\x00\x07" + bytes(8))


def datagram_case(seq, tail):
    m = menu()
    data = b"".join(refcodec.enc_someip(*m[i]) for i in seq) + tail
    p = Rec()
    addr = ("192.0.2.5", 30501)
    try:
        p.datagram_received(data, addr, False)
    except Exception as e:  # noqa: BLE001
        return [("datagram", "raises", f"{type(e).__name__}: {e}")]
    want = [mk(*m[i]) for i in seq]
    got = [g[0] for g in p.got]
    out = []
    if got != want:
        disc = "count" if len(got) != len(want) else "content-or-order"
        out.append(("datagram", disc, f"seq={seq} tail={len(tail)} delivered {len(got)} expected {len(want)}"))
    if any(g[1] != addr or g[2] is not False for g in p.got):
        out.append(("datagram", "addr", "address or channel not passed through"))
    return out


def two_datagrams_case(seq, tail):
    m = menu()
    p = Rec()
    addr = ("192.0.2.5", 30501)
    first = b"".join(refcodec.enc_someip(*m[i]) for i in seq) + tail
    second = refcodec.enc_someip(*m[4]) + refcodec.enc_someip(*m[0])
    try:
        p.datagram_received(first, addr, False)
        n1 = len(p.got)
        p.datagram_received(second, addr, False)
    except Exception as e:  # noqa: BLE001
        return [("datagram", f"two-datagrams-raises-{type(e).__name__}", f"{type(e).__name__}: {e}")]
    want = [mk(*m[4]), mk(*m[0])]
    got = [g[0] for g in p.got[n1:]]
    if got != want:
        return [("datagram", "second-datagram-misframed", f"after a datagram with an undecodable tail of {len(tail)} bytes the next "
                 f"datagram delivered {len(got)} messages, expected 2 equal ones")]
    return []


class Raising(Rec):
    """an application whose handler fails on its k-th delivery (0-based), with the given exception type"""

    def __init__(self, k, exc):
        super().__init__()
        self.k, self.exc = k, exc

    def message_received(self, someip_message, addr, multicast):
        super().message_received(someip_message, addr, multicast)
        if len(self.got) - 1 == self.k:
            raise self.exc("application handler failed")


def raising_handler_case(k, excname, seq):
    """the application's handler fails while a datagram is being delivered; whatever becomes of the rest of that
    datagram, the endpoint must go on delivering the following datagrams completely and in order"""
    import someip.header as hdr
    exc = dict(RuntimeError=RuntimeError, KeyError=KeyError, ParseError=hdr.ParseError)[excname]
    m = menu()
    p = Raising(k, exc)
    addr = ("192.0.2.5", 30501)
    first = b"".join(refcodec.enc_someip(*m[i]) for i in (0, 1, 2))
    try:
        p.datagram_received(first, addr, False)
    except Exception:  # noqa: BLE001  (the application's own exception may or may not propagate)
        pass
    got1 = [g[0] for g in p.got]
    want1 = [mk(*m[i]) for i in (0, 1, 2)]
    out = []
    if got1 != want1[:len(got1)] or len(got1) < k + 1:
        out.append(("datagram", "before-handler-failure", f"deliveries before the failing one: {len(got1)}, not a prefix of the datagram"))
    n1 = len(p.got)
    for rnd in range(2):
        try:
            p.datagram_received(b"".join(refcodec.enc_someip(*m[i]) for i in seq), ("192.0.2.6", 30502), True)
        except Exception as e:  # noqa: BLE001
            return out + [("datagram", f"after-handler-failure-raises-{type(e).__name__}", f"{type(e).__name__}: {e}")]
        got = p.got[n1:]
        want = [mk(*m[i]) for i in seq]
        if [g[0] for g in got] != want or any(g[1] != ("192.0.2.6", 30502) or g[2] is not True for g in got):
            out.append(("datagram", "deaf-after-handler-failure", f"after a {excname} raised by the application's handler on delivery "
                        f"{k} the datagram no. {rnd + 2} delivered {len(got)} of {len(want)} messages"))
            break
        n1 = len(p.got)
    return out


def reentrant_case(k, outer, inner):
    """the handler of the k-th message of a datagram hands another datagram to the same endpoint (a gateway re-injecting
    a tunnelled message; an in-process network whose peer answers synchronously): both datagrams are delivered
    completely, each in its own order"""
    m = menu()
    log = []

    class App(sd.SOMEIPDatagramProtocol):
        def message_received(self, someip_message, addr, multicast):
            log.append((someip_message, addr))
            if addr[1] == 1 and sum(1 for x in log if x[1][1] == 1) == k + 1:
                self.datagram_received(b"".join(refcodec.enc_someip(*m[i]) for i in inner), ("192.0.2.6", 2), False)

    p = App()
    try:
        p.datagram_received(b"".join(refcodec.enc_someip(*m[i]) for i in outer), ("192.0.2.5", 1), False)
    except Exception as e:  # noqa: BLE001
        return [("datagram", f"reentrant-raises-{type(e).__name__}", f"{type(e).__name__}: {e}")]
    got_outer = [x[0] for x in log if x[1][1] == 1]
    got_inner = [x[0] for x in log if x[1][1] == 2]
    out = []
    if got_outer != [mk(*m[i]) for i in outer]:
        out.append(("datagram", "reentrant-outer-incomplete", f"handler of message {k} of a datagram of {len(outer)} messages handed "
                    f"another datagram to the endpoint: {len(got_outer)} of the outer messages were delivered"))
    if got_inner != [mk(*m[i]) for i in inner]:
        out.append(("datagram", "reentrant-inner-incomplete", f"{len(got_inner)} of {len(inner)} inner messages delivered"))
    return out


def adapter_case(multicast, seq):
    """the object asyncio's transport holds is the library's DatagramProtocolAdapter; the application keeps only the
    transport (asyncio's convention: the transport owns its protocol).  Datagrams handed to the adapter reach the
    application object, also after a garbage collection."""
    import gc
    m = menu()
    got = []

    class App(sd.SOMEIPDatagramProtocol):
        def message_received(self, someip_message, addr, multicast):
            got.append((someip_message, addr, multicast))

    app = App()
    adapter = sd.DatagramProtocolAdapter(app, is_multicast=multicast)
    # the same application object also serves the other channel through a second adapter / transport; that one is lost
    other = sd.DatagramProtocolAdapter(app, is_multicast=not multicast)
    del app
    gc.collect()
    addr = ("192.0.2.5", 30501)
    try:
        adapter.datagram_received(b"".join(refcodec.enc_someip(*m[i]) for i in seq), addr)
        other.connection_lost(None)
        adapter.datagram_received(b"".join(refcodec.enc_someip(*m[i]) for i in seq), addr)
    except Exception as e:  # noqa: BLE001
        return [("datagram", f"adapter-raises-{type(e).__name__}", f"{type(e).__name__}: {e}")]
    want = [mk(*m[i]) for i in seq] * 2
    if [g[0] for g in got] != want or any(g[1] != addr or g[2] is not multicast for g in got):
        return [("datagram", "adapter-does-not-deliver", f"two datagrams of {len(seq)} messages handed to the transport's protocol "
                 f"adapter (multicast={multicast}): the application received {len(got)} messages")]
    return []


def long_datagram_case(count):
    one = [refcodec.enc_someip(0x1000 + (i & 0xFF), i & 0xFFFF, 1, i & 0xFFFF, 1, 0x02, 0, b"") for i in range(count)]
    p = Rec()
    addr = ("192.0.2.5", 30501)
    try:
        p.datagram_received(b"".join(one), addr, True)
    except Exception as e:  # noqa: BLE001
        return [("datagram", f"long-raises-{type(e).__name__}", f"{count} messages in one datagram: {type(e).__name__} after "
                 f"{len(p.got)} deliveries")]
    ok = len(p.got) == count and all(g[0].method_id == (i & 0xFFFF) and g[0].service_id == 0x1000 + (i & 0xFF) and g[2] is True
                                     for i, g in enumerate(p.got))
    return [] if ok else [("datagram", "long-count-or-order", f"{count} messages in one datagram: {len(p.got)} delivered")]


_IL = {
    1: (0x0102, 0x0304, 0x0506, 0x0708, 0x09, 0x00, 0, b"abc"),
    2: (0xA1A2, 0x8304, 0xC5C6, 0xD7D8, 0x19, 0x80, 0, b"a different, longer payload"),
}


def interleaved_case(op_a, op_b):
    """operation A (encode or decode of one message) is preempted at every bytecode boundary inside the library by a
    complete operation B on another message - what a second thread that encodes / decodes at the same time does (see
    pvmc/interleave.py): both still return what they return when run alone"""
    import os

    import someip

    from .. import interleave
    prefix = os.path.dirname(someip.__file__)

    def op(name):
        kind, which = name[:-1], int(name[-1])
        f = _IL[which]
        if kind == "build":
            m = mk(*f)
            return (lambda: bytes(m.build())), ("ok", refcodec.enc_someip(*f))
        data = refcodec.enc_someip(*f) + b"tail"
        return (lambda: hdr.SOMEIPHeader.parse(data)), ("ok", (mk(*f), b"tail"))

    fa, want_a = op(op_a)
    fb, want_b = op(op_b)
    total, runs = interleave.explore(fa, fb, prefix)
    out = []
    if total < 5:
        out.append(("interleaving", "no-boundaries", f"{op_a}: only {total} bytecode boundaries traced inside {prefix}"))
    for k, ra, rb in runs:
        if ra != want_a or rb != want_b:
            who = "preempted" if ra != want_a else "preempting"
            out.append(("interleaving", f"{who}-operation-wrong", f"{op_a} preempted at bytecode boundary {k} of {total} by {op_b}: "
                        f"{op_a} -> {ra!r:.120} (alone {want_a!r:.120}), {op_b} -> {rb!r:.120} (alone {want_b!r:.120})"))
            break
    return total, out


def check(ctx):
    viols = []
    samples = core.Samples()
    n = 0
    distinct = set()

    def rec(res, case):
        for clause, disc, detail in res:
            viols.append(core.Violation(ctx.prop, clause, disc, case, detail=detail))

    # (a) id fields
    ids = ctx.rot(B16)
    settings = [(0x00, 0, payload(3)), (0xC1, 10, b"")]
    for service, method, client, session in itertools.product(ids, repeat=4):
        for iface in (0, 1, 0x7F, 0xFF):
            for mtype, code, pl in settings:
                f = (service, method, client, session, iface, mtype, code, pl)
                n += 1
                distinct.add(f[:7] + (len(pl),))
                rec(one(f, b""), dict(kind="fields", fields=f, suffix=b""))
    samples.add(dict(kind="fields", fields=(ids[0], ids[1], ids[2], ids[3], 0x7F, 0, 0, payload(3))), "a")
    # (b) types x codes x payload lengths x suffixes
    second = refcodec.enc_someip(1, 2, 3, 4, 5, 0, 0, b"z")
    suffixes = (b"", b"\x00", payload(15, 9), second)
    triples = [(0x0102, 0x0304, 0x0506, 0x0708, 0x09), (0xFFFF, 0x8100, 0, 1, 1), (0, 0, 0xFFFF, 0xFFFF, 0xFF)]
    plens = PLENS if not ctx.thorough else PLENS + (3, 4, 5, 6, 31, 32, 33, 1023, 1024, 1025, 4095, 4096, 4097,
                                                    32767, 32768, 65519, 65520, 65543, 65544, 131071)
    pcache = {p: payload(p) for p in plens}
    for mtype in refcodec.MESSAGE_TYPES:
        for code in refcodec.RETURN_CODES:
            for p in plens:
                for si, suf in enumerate(suffixes):
                    s, m, c, se, iv = triples[(p + si + code) % 3]
                    f = (s, m, c, se, iv, mtype, code, pcache[p])
                    n += 1
                    distinct.add((mtype, code, p, si))
                    rec(one(f, suf), dict(kind="types", fields=f[:7] + (("payload_len", p),), suffix=suf))
    samples.add(dict(kind="types", mtype=0x81, code=9, payload_len=65529, suffix="second message"), "b")
    # (b') every payload length 0..4096 (thorough: ..16384) with one header, followed by a second message
    big = payload(16384)
    for p in range(0, 16385 if ctx.thorough else 4097):
        f = (0x0102, 0x0304, 0x0506, 0x0708, 0x09, 0x00, 0, big[:p])
        n += 1
        distinct.add(("len", p))
        rec(one(f, second), dict(kind="types", fields=f[:7] + (("payload_len", p),), suffix=second))
    # (c) datagrams
    maxlen = 4 if ctx.thorough else 3
    nd = 0
    for k in range(0, maxlen + 1):
        for seq in itertools.product(range(len(menu())), repeat=k):
            for t, tail in enumerate(TAILS):
                n += 1
                nd += 1
                distinct.add(("dg", seq, t))
                rec(datagram_case(seq, tail), dict(kind="datagram", seq=seq, tail=tail))
    samples.add(dict(kind="datagram", seq=(3, 0, 5), tail=TAILS[2]), "c")
    # (e) the decoders must not depend on what was decoded before: the first id tuples and the datagram menu
    # once more, after everything above has gone through the same process
    for service, method, client, session in list(itertools.product(ids, repeat=4))[:64]:
        f = (service, method, client, session, 1, 0x00, 0, payload(3))
        n += 1
        rec(one(f, b""), dict(kind="fields", fields=f, suffix=b"", after_history=True))
    for seq in ((0,), (1, 2), (5, 4, 3)):
        n += 1
        rec(datagram_case(seq, b""), dict(kind="datagram", seq=seq, tail=b"", after_history=True))
    # (f) datagram after datagram on one protocol object: a datagram with an undecodable tail, then a clean one
    for seq in ((0,), (1, 2)):
        for t, tail in enumerate(TAILS[1:]):
            n += 1
            rec(two_datagrams_case(seq, tail), dict(kind="two-datagrams", seq=seq, tail=tail))
    # (g) a failing application handler must not disturb the delivery of the following datagrams
    for k in (0, 1, 2):
        for excname in ("RuntimeError", "KeyError", "ParseError"):
            for seq in ((0,), (4, 0), (1, 2, 5)):
                n += 1
                distinct.add(("raising", k, excname, seq))
                rec(raising_handler_case(k, excname, seq), dict(kind="raising-handler", k=k, exc=excname, seq=seq))
    # (i) a handler that hands another datagram to the same endpoint while a datagram is being delivered
    for outer in ((0, 1, 2), (4, 0), (1, 2, 5, 0, 4)):
        for k in range(len(outer)):
            for inner in ((0,), (2, 1), ()):
                n += 1
                distinct.add(("reentrant", outer, k, inner))
                rec(reentrant_case(k, outer, inner), dict(kind="reentrant", k=k, outer=outer, inner=inner))
    # (h) through the adapter object that asyncio's transport holds
    for multicast in (False, True):
        for seq in ((0,), (1, 2, 5), (4, 0)):
            n += 1
            distinct.add(("adapter", multicast, seq))
            rec(adapter_case(multicast, seq), dict(kind="adapter", multicast=multicast, seq=seq))
    # (d) "any number of messages per datagram": as many empty-payload messages as a UDP datagram can hold
    for count in (255, 256, 1000, 2000, 4094):
        n += 1
        distinct.add(("long", count))
        rec(long_datagram_case(count), dict(kind="long-datagram", count=count))
    # (j) two encoders / decoders at the same time: one preemption at every bytecode boundary
    nbound = 0
    for op_a, op_b in itertools.product(("build1", "parse1"), ("build2", "parse2")):
        total, res = interleaved_case(op_a, op_b)
        n += total
        nbound += total
        distinct.add(("interleaved", op_a, op_b))
        rec(res, dict(kind="interleaved", a=op_a, b=op_b))
    cov = dict(
        interleavings=nbound,
        evaluations=n, distinct_nontrivial=len(distinct), exhaustive=True,
        rule="(a) product of 8 boundary values for each of service/method/client/session x 4 interface versions x "
             "2 settings; (b) all 10 message types x all 11 return codes x boundary payload lengths x 4 suffixes; "
             "(c) every sequence of 0..%d messages from a menu of 6 x 4 tails through datagram_received. Every case "
             "builds, is compared byte-for-byte with the independent encoder and is parsed back; distinct = distinct "
             "input tuples (all are non-trivial: each yields a full encode+decode)" % maxlen,
        samples=samples.out(), datagram_cases=nd, payload_lengths=list(plens),
    )
    return core.finish(ctx, "exploration", cov, viols, [
        "width and slice boundaries only, not all 2^64 id combinations or all 65537 payload lengths",
        "(j): one preemption of an encode / decode by a complete second one, at every bytecode boundary inside the "
        "library's Python code; not two-sided preemption, not switches inside C functions",
    ])


def replay(ctx, body):
    case = body["case"]
    if case["kind"] == "two-datagrams":
        res = two_datagrams_case(tuple(case["seq"]), case["tail"])
    elif case["kind"] == "reentrant":
        res = reentrant_case(case["k"], tuple(case["outer"]), tuple(case["inner"]))
    elif case["kind"] == "adapter":
        res = adapter_case(bool(case["multicast"]), tuple(case["seq"]))
    elif case["kind"] == "raising-handler":
        res = raising_handler_case(case["k"], case["exc"], tuple(case["seq"]))
    elif case["kind"] == "long-datagram":
        res = long_datagram_case(case["count"])
    elif case["kind"] == "interleaved":
        res = interleaved_case(case["a"], case["b"])[1]
    elif case["kind"] == "datagram":
        res = datagram_case(tuple(case["seq"]), case["tail"])
    else:
        f = list(case["fields"])
        if isinstance(f[7], tuple):
            f[7] = payload(f[7][1])
        res = one(tuple(f), case["suffix"])
    for r in res:
        print("FAILS:", r)
    return 1 if res else 0
