"""C20 - decoding canonicalises: decode-encode-decode equals decode (E3).

Inputs: every *accepted* input in the 1-mutation neighbourhood of the seed corpus at all four
decoder levels; all 256 option types x 6 payload lengths; every protocol number; all unknown flag
values; the output of an independent non-canonical encoder (permuted option arrays, unreferenced
and duplicated options, every legal index for empty runs, non-zero reserved bytes, garbage after a
configuration option's terminator)."""
from __future__ import annotations

import itertools

import someip.header as hdr

from .. import core, corpus, refcodec
from .c02 import to_ref
from .c03 import offsets_of


_OTHER = {
    "someip": hdr.SOMEIPHeader(service_id=0x4321, method_id=1, client_id=2, session_id=3, interface_version=4,
                               message_type=hdr.SOMEIPMessageType.REQUEST, payload=b"other message"),
    "sd": hdr.SOMEIPSDHeader(entries=(hdr.SOMEIPSDEntry(sd_type=hdr.SOMEIPSDEntryType.FindService, service_id=0x4321, instance_id=1,
                                                        major_version=1, ttl=9, minver_or_counter=7),),
                             flag_reboot=False).assign_option_indexes(),
    "entry": hdr.SOMEIPSDEntry(sd_type=hdr.SOMEIPSDEntryType.FindService, service_id=0x4321, instance_id=1, major_version=1, ttl=9,
                               minver_or_counter=7, option_index_1=0, option_index_2=0, num_options_1=0, num_options_2=0),
    "option": hdr.SOMEIPSDLoadBalancingOption(priority=0x4321, weight=0x1234),
}


def cycle(level, parse, data, n_opts=None):
    """-> (accepted?, violations, ref_disagreement?)"""
    try:
        v, rest = parse(data)
    except (hdr.ParseError, UnicodeDecodeError):
        return False, [], False
    except Exception:  # noqa: BLE001 - C03 reports other exception types
        return False, [], False
    out = []
    consumed = bytes(data[:len(data) - len(rest)])
    try:
        raw = v.build()
        again = bytes(raw)
        # the encoding of one value is its own: encoding further values (this one again, another one of the same kind)
        # must not change what was returned before
        v.build()
        _OTHER[level].build()
        stable = bytes(raw) == again
    except Exception as e:  # noqa: BLE001
        return True, [("re-encode", f"{level}-raises-{type(e).__name__}", f"{level}: decoded value cannot be encoded again: {e}")], False
    if not stable:
        out.append(("re-encode", f"{level}-encoding-changed-by-a-later-encode", f"{level}: the object returned by build() changed when "
                    "another value was encoded"))
    try:
        v2, rest2 = parse(again)
    except Exception as e:  # noqa: BLE001
        return True, [("re-decode", f"{level}-raises-{type(e).__name__}", f"{level}: re-encoded bytes do not decode: {e}")], False
    if rest2:
        out.append(("re-decode", f"{level}-leftover", f"{level}: {len(rest2)} bytes left over after decoding the re-encoded value"))
    if v2 != v:
        out.append(("re-decode", f"{level}-value-differs", f"{level}: parse(build(v)) != v"))
    if level == "someip" and again != consumed:
        out.append(("re-encode", "someip-bytes-differ", "SOME/IP message: re-encoded bytes differ from the consumed input"))
    # the independent decoder must read the same structure from the input and from the re-encoded bytes
    disagree = False
    try:
        ra = ref_view(level, consumed, n_opts)
    except refcodec.RefError:
        ra = None
        disagree = True
    if ra is not None:
        try:
            rb = ref_view(level, again, n_opts)
        except refcodec.RefError as e:
            rb = None
            out.append(("survives", f"{level}-reference-rejects-output", f"{level}: reference decoder rejects the re-encoded bytes: {e}"))
        if rb is not None and ra != rb:
            out.append(("survives", f"{level}-information-lost", f"{level}: reference decoder reads {rb!r:.150} from the "
                        f"re-encoded bytes but {ra!r:.150} from the input"))
        lv = lib_view(level, v)
        if lv is not None and lv != ra:
            out.append(("survives", f"{level}-decoded-value-differs-from-wire", f"{level}: library decoded {lv!r:.150}, "
                        f"independent decoder reads {ra!r:.150}"))
    return True, out, disagree


def ref_view(level, data, n_opts):
    if level == "someip":
        m, _ = refcodec.dec_someip(data)
        return tuple(sorted(m.items()))
    if level == "sd":
        sdm, _ = refcodec.dec_sd(data)
        ents = tuple(tuple(sorted(e.items())) for e in sdm["entries"])
        return (sdm["reboot"], sdm["unicast"], sdm["unknown_flags"], ents, sdm["options"])
    if level == "entry":
        e, _ = refcodec.dec_entry(data, n_opts)
        return tuple(sorted(e.items()))
    o, _ = refcodec.dec_option(data)
    return o


def lib_view(level, v):
    if level == "someip":
        return tuple(sorted(dict(service=v.service_id, method=v.method_id, length=len(v.payload) + 8, client=v.client_id,
                                 session=v.session_id, protover=v.protocol_version, iface=v.interface_version,
                                 mtype=v.message_type.value, code=v.return_code.value, payload=bytes(v.payload)).items()))
    if level == "option":
        return to_ref(v)
    if level == "entry":
        return tuple(sorted(dict(type=v.sd_type.value, i1=v.option_index_1, i2=v.option_index_2, n1=v.num_options_1,
                                 n2=v.num_options_2, service=v.service_id, instance=v.instance_id, major=v.major_version,
                                 ttl=v.ttl, last=v.minver_or_counter).items()))
    if level == "sd":
        ents = tuple(tuple(sorted(dict(type=e.sd_type.value, i1=e.option_index_1, i2=e.option_index_2, n1=e.num_options_1,
                                       n2=e.num_options_2, service=e.service_id, instance=e.instance_id,
                                       major=e.major_version, ttl=e.ttl, last=e.minver_or_counter).items()))
                     for e in v.entries)
        return (v.flag_reboot, v.flag_unicast, v.flags_unknown, ents, tuple(to_ref(o) for o in v.options))
    return None


def all_levels(data, offs):
    sdoff, eoff, ooff = offs
    yield "someip", hdr.SOMEIPHeader.parse, data, None
    for off in sorted({0, sdoff}):
        yield "sd", hdr.SOMEIPSDHeader.parse, data[off:], None
    for off in sorted({0, eoff}):
        for n in (0, 1, 255):
            yield "entry", (lambda b, n=n: hdr.SOMEIPSDEntry.parse(b, n)), data[off:], n
    for off in sorted({0, ooff}):
        yield "option", hdr.SOMEIPSDOption.parse, data[off:], None


def part_mut(args):
    name, seed_bytes, lo, hi = args[:4]
    two = len(args) > 4 and args[4]
    offs = offsets_of(seed_bytes)
    viols = []
    n = acc = dis = 0
    seen = set()
    import itertools as _it
    gen = _it.islice(corpus.mutations2(seed_bytes), lo, hi) if two else list(corpus.mutations(seed_bytes))[lo:hi]
    for mname, data in gen:
        if data in seen:
            continue
        seen.add(data)
        for level, parse, d, nopt in all_levels(data, offs):
            n += 1
            ok, vs, disagree = cycle(level, parse, bytes(d), nopt)
            acc += ok
            dis += disagree
            if disagree:
                viols.append(("classification", f"{level}-accepts-what-reference-rejects",
                              f"{level}: the library decodes bytes the independent decoder rejects",
                              dict(kind="mutation", seed=name, mutation=mname, level=level, data=bytes(d), n_opts=nopt)))
            for clause, disc, detail in vs:
                viols.append((clause, disc, detail, dict(kind="mutation", seed=name, mutation=mname, level=level,
                                                         data=bytes(d), n_opts=nopt)))
    return n, acc, dis, viols[:100], len(viols)


def part_generated(args):
    """option types x lengths, protocol numbers, flags, non-canonical layouts"""
    seedv = args
    viols = []
    n = acc = dis = 0

    def run(level, parse, data, what, nopt=None):
        nonlocal n, acc, dis
        n += 1
        ok, vs, disagree = cycle(level, parse, data, nopt)
        acc += ok
        dis += disagree
        if disagree:
            viols.append(("classification", f"{level}-accepts-what-reference-rejects", f"{level}: {what}",
                          dict(kind="generated", what=what, level=level, data=data, n_opts=nopt)))
        for clause, disc, detail in vs:
            viols.append((clause, disc, f"{what}: {detail}", dict(kind="generated", what=what, level=level, data=data, n_opts=nopt)))
        return ok

    # all 256 option types x payload lengths
    for typ in range(256):
        for ln in (0, 1, 5, 9, 21, 22):
            body = bytes((7 * i + typ) & 0x7F for i in range(ln))
            run("option", hdr.SOMEIPSDOption.parse, refcodec.tobe(ln, 2) + bytes([typ]) + body, f"option type {typ:#x} length {ln}")
    # every protocol number in v4 / v6 endpoint options, non-zero reserved bytes
    for proto in range(256):
        for res in (0, 0xA5):
            b4 = refcodec.tobe(9, 2) + b"\x04" + bytes([res]) + bytes([192, 0, 2, 1]) + bytes([res, proto]) + refcodec.tobe(30000 + proto, 2)
            run("option", hdr.SOMEIPSDOption.parse, b4, f"IPv4 endpoint option protocol {proto} reserved {res:#x}")
        b6 = refcodec.tobe(21, 2) + b"\x26\x00" + bytes(range(16)) + bytes([0, proto]) + refcodec.tobe(1, 2)
        run("option", hdr.SOMEIPSDOption.parse, b6, f"IPv6 SD endpoint option protocol {proto}")
    # addresses with a special form or meaning, in all three kinds of IP option: an address is 4 / 16 opaque bytes
    import ipaddress
    v6s = ["::", "::1", "::ffff:192.0.2.1", "::ffff:0.0.0.0", "::192.0.2.1", "64:ff9b::c000:201", "2002:c000:201::1", "fe80::1",
           "ff02::1", "ff0e::4:c", "2001:db8::", "ffff:ffff:ffff:ffff:ffff:ffff:ffff:ffff", "0:0:0:0:0:ffff:ffff:ffff", "::ffff:0:1"]
    v4s = ["0.0.0.0", "127.0.0.1", "224.0.0.1", "255.255.255.255", "169.254.0.1", "192.0.2.1"]
    for typ in (0x06, 0x16, 0x26):
        for a6 in v6s:
            body = b"\x00" + ipaddress.IPv6Address(a6).packed + bytes([0, 17]) + refcodec.tobe(30490, 2)
            run("option", hdr.SOMEIPSDOption.parse, refcodec.tobe(21, 2) + bytes([typ]) + body, f"IPv6 option type {typ:#x} address {a6}")
    for typ in (0x04, 0x14, 0x24):
        for a4 in v4s:
            body = b"\x00" + ipaddress.IPv4Address(a4).packed + bytes([0, 6]) + refcodec.tobe(30490, 2)
            run("option", hdr.SOMEIPSDOption.parse, refcodec.tobe(9, 2) + bytes([typ]) + body, f"IPv4 option type {typ:#x} address {a4}")
    # configuration options with two items, the second of every length 1..255 (its length byte is an arbitrary byte)
    for ln in range(1, 256):
        for first in (b"key", b"k=v", b"k="):
            body = b"\x00" + bytes([len(first)]) + first + bytes([ln]) + b"x" * ln + b"\x00"
            run("option", hdr.SOMEIPSDOption.parse, refcodec.tobe(len(body), 2) + b"\x01" + body, f"config option {first!r} + item of length {ln}")
    # configuration options: garbage after the terminator, odd strings
    for items, tail in itertools.product(
            ((), (b"k",), (b"k=v",), (b"=v",), (b"k=",), (b"a=b=c", b"x"), (b"\x01\x02",), (b"=",), (b"==",),
             (b"k=\xc3\xa9",), (b"\xc3\xa9",), (b"a\xe2\x82\xac=x", b"y"), (b"\xf0\x9f\x98\x80=1",), (b"k=\xe9",), (b"\x7f=\x7f",)),
            (b"", b"\x00", b"junk", b"\x05abc")):
        body = b"\x00" + b"".join(bytes([len(s)]) + s for s in items) + b"\x00" + tail
        run("option", hdr.SOMEIPSDOption.parse, refcodec.tobe(len(body), 2) + b"\x01" + body, f"config option {items} tail {tail!r}")
    # all flag values with one entry, non-zero reserved bytes in the SD header
    v4 = refcodec.v4("192.0.2.1", 30501)
    lb = ("loadbal", 3, 4)
    cfgo = ("config", (("foo", "bar"),))
    unk = ("unknown", 0x99, b"\x00zz")
    raw1 = [dict(type=1, i1=0, i2=0, n1=1, n2=0, service=1, instance=2, major=3, ttl=4, last=5)]
    for flags in range(256):
        for reserved in (b"\x00\x00\x00", b"\x01\x02\x03"):
            run("sd", hdr.SOMEIPSDHeader.parse, refcodec.enc_sd(flags, raw1, [v4], reserved=reserved), f"flags {flags:#x} reserved {reserved.hex()}")
    # non-canonical layouts for two entries over the options a, b, c
    pool = [v4, lb, cfgo, unk]
    k = seedv % 4
    a, b, c = (pool[k:] + pool[:k])[:3]
    base_opts = [a, b, c]
    runs = [(0, 0), (0, 1), (1, 1), (0, 2), (1, 2), (0, 3), (2, 1)]  # (index, count) into base_opts
    for perm in itertools.permutations(range(3)):
        opts = [base_opts[i] for i in perm]
        for (i1, n1), (i2, n2) in itertools.product(runs, repeat=2):
            for zero_idx in (0, 1, 3):
                e1 = dict(type=1, i1=i1 if n1 else zero_idx, i2=i2 if n2 else zero_idx, n1=n1, n2=n2, service=1, instance=2,
                          major=3, ttl=4, last=5)
                e2 = dict(type=6, i1=i2 if n2 else zero_idx, i2=i1 if n1 else zero_idx, n1=n2, n2=n1, service=6, instance=7,
                          major=8, ttl=9, last=(3 << 16) | 10)
                run("sd", hdr.SOMEIPSDHeader.parse, refcodec.enc_sd(0xC0, [e1, e2], opts), f"perm {perm} runs {(i1, n1, i2, n2)} zero-index {zero_idx}")
    # unreferenced option inserted at each position / duplicated options instead of shared ones
    for pos in range(4):
        opts = base_opts[:pos] + [unk if unk not in base_opts else lb] + base_opts[pos:]
        shift = lambda i: i + (1 if i >= pos else 0)  # noqa: E731
        e1 = dict(type=1, i1=shift(0), i2=shift(2), n1=1, n2=1, service=1, instance=2, major=3, ttl=4, last=5)
        run("sd", hdr.SOMEIPSDHeader.parse, refcodec.enc_sd(0xC0, [e1], opts), f"unreferenced option at {pos}")
    e1 = dict(type=1, i1=0, i2=3, n1=2, n2=2, service=1, instance=2, major=3, ttl=4, last=5)
    run("sd", hdr.SOMEIPSDHeader.parse, refcodec.enc_sd(0xC0, [e1], [a, b, c, a, b]), "duplicated options instead of shared ones")
    # the same entry more than once in a message (verbatim, and differing in one field only), adjacent and apart, with and
    # without option runs: decoding and re-encoding keeps every entry, in order
    ea = dict(type=1, i1=0, i2=1, n1=1, n2=1, service=1, instance=2, major=3, ttl=4, last=5)
    eb = dict(type=6, i1=0, i2=0, n1=0, n2=0, service=6, instance=7, major=8, ttl=9, last=(3 << 16) | 10)
    near = [dict(ea, **{k: v}) for k, v in (("type", 0), ("service", 2), ("instance", 3), ("major", 4), ("ttl", 5), ("last", 6),
                                            ("n2", 0), ("i1", 1))]
    for what, raw in ([("twice", [ea, ea]), ("three times", [ea, ea, ea]), ("apart", [ea, eb, ea]), ("two pairs", [ea, eb, ea, eb]),
                       ("pair behind another", [eb, ea, ea]), ("without options twice", [eb, eb]), ("16 times", [eb] * 16)]
                      + [(f"next to one differing in {sorted(set(x.items()) - set(ea.items()))[0][0]}", [ea, x, ea]) for x in near]):
        run("sd", hdr.SOMEIPSDHeader.parse, refcodec.enc_sd(0xC0, raw, [a, b]), f"same entry {what}")
    # messages that look like the TCP "magic cookies" (and near misses), alone, in front of and behind another message
    other = refcodec.enc_someip(0x1234, 0x0001, 1, 2, 1, 0x00, 0, b"abc")
    for method, mtype in ((0x0000, 0x01), (0x8000, 0x02), (0x0000, 0x02), (0x8000, 0x01), (0x0001, 0x01)):
        for client, session in ((0xDEAD, 0xBEEF), (0xDEAD, 0xBEEE)):
            cookie = refcodec.enc_someip(0xFFFF, method, client, session, 1, mtype, 0, b"")
            for data, what in ((cookie, "alone"), (cookie + other, "in front"), (other + cookie, "behind"), (cookie + cookie + other, "twice")):
                run("someip", hdr.SOMEIPHeader.parse, data, f"magic-cookie lookalike {method:#x}/{mtype:#x}/{client:#x}{session:04x} {what}")
    # SD messages with 255..270 options whose last run starts at an index <= 255 and reaches up to position 270
    for total in (255, 256, 257, 260, 269, 270):
        opts = [("unknown", 0x70, bytes([0, i & 0xFF, i >> 8])) for i in range(total)]
        raw = [dict(type=1, i1=i, i2=0, n1=min(15, 255 - i), n2=0, service=1 + i, instance=2, major=3, ttl=4, last=5)
               for i in range(0, 255, 15)]
        start = min(255, total - 1)
        raw.append(dict(type=1, i1=start, i2=240, n1=total - start, n2=15, service=0x999, instance=2, major=3, ttl=4, last=5))
        run("sd", hdr.SOMEIPSDHeader.parse, refcodec.enc_sd(0xC0, raw, opts), f"{total} options, last run {start}+{total - start}")
    # whole SOME/IP messages around the SD payloads: every message type / return code
    for mt in refcodec.MESSAGE_TYPES:
        for rcode in refcodec.RETURN_CODES:
            run("someip", hdr.SOMEIPHeader.parse, refcodec.enc_someip(0xFFFF, 0x8100, 1, 2, 3, mt, rcode, b"xyz") + b"tail", f"type {mt:#x} code {rcode}")
    return n, acc, dis, viols[:100], len(viols)


def _run(job):
    kind, args = job
    return part_mut(args) if kind == "mut" else part_generated(args)


def check(ctx):
    jobs = []
    for name, data in corpus.seeds(ctx.seed):
        total = sum(1 for _ in corpus.mutations(data))
        for lo in range(0, total, 1500):
            jobs.append(("mut", (name, data, lo, lo + 1500)))
    jobs.append(("gen", ctx.seed))
    jobs.append(("gen", ctx.seed + 1))
    if ctx.thorough:
        # structural 2-mutations of every seed
        for name, data in corpus.seeds(ctx.seed):
            st = len([p for p in corpus.structure(data)[0] if p < len(data)])
            total = (st * (st - 1) // 2) * 15 * 15
            for lo in range(0, total, 20000):
                jobs.append(("mut", (name, data, lo, lo + 20000, True)))
    out = core.pmap(_run, jobs, 1)
    viols = []
    n = acc = dis = 0
    for cnt, a, d, vs, nv in out:
        n += cnt
        acc += a
        dis += d
        for clause, disc, detail, case in vs:
            viols.append(core.Violation(ctx.prop, clause, disc, case, detail=detail))
    samples = core.Samples()
    samples.add(dict(what="option type 0x99 length 5", level="option"), "unknown option kept raw")
    samples.add(dict(what="perm (2, 0, 1) runs (1, 2, 0, 1) zero-index 3", level="sd"), "non-canonical option layout")
    samples.add(dict(seed="sd-subscribe-cfg", mutation="byte@22=0x3", level="sd"), "accepted mutated input")
    cov = dict(
        evaluations=n, distinct_nontrivial=acc, exhaustive=True,
        rule="decoder calls over (1-mutation neighbourhood of 14 seeds) x (4 decoder levels at seed offsets and offset 0) "
             "plus generated inputs (256 option types x 6 lengths, 256 protocol numbers, 256 flag bytes, configuration "
             "strings with garbage, 6 permutations x 49 run pairs x 3 zero-run indexes of a 3-option array, unreferenced "
             "and duplicated options, 110 type/code combinations); non-trivial = inputs the library accepted "
             "(each goes through decode-encode-decode and the independent decoder)",
        samples=samples.out(), accepted=acc, reference_disagreements=dis,
    )
    return core.finish(ctx, "exploration", cov, viols, [
        "the independent decoder is lenient exactly where the statement says the library is (reserved bytes, unknown "
        "option types, garbage after a configuration terminator); an input the library accepts but the independent "
        "decoder rejects is reported",
    ])


def replay(ctx, body):
    c = body["case"]
    level = c["level"]
    parse = {"someip": hdr.SOMEIPHeader.parse, "sd": hdr.SOMEIPSDHeader.parse, "option": hdr.SOMEIPSDOption.parse,
             "entry": lambda b: hdr.SOMEIPSDEntry.parse(b, c.get("n_opts") or 0)}[level]
    ok, vs, dis = cycle(level, parse, c["data"], c.get("n_opts"))
    print("input:", c["data"].hex(), "accepted:", ok, "reference disagrees:", dis)
    for v in vs:
        print("FAILS:", v)
    return 1 if (vs or dis) else 0
