"""C14 - client subscription messages mirror the requested subscription set (E1).

Real code driven: ServiceSubscriber.subscribe_eventgroup / stop_subscribe_eventgroup / start /
stop inside a real protocol object.  Reference model: one server per destination that applies
the Subscribe / StopSubscribe entries in the order they left the transport."""
from __future__ import annotations

import ipaddress

import someip.config as cfg_
import someip.header as hdr

from .. import core, e1, refcodec
from ..world import MCAST, Choice, RandomSeam, make_sd, timings

INF = 0xFFFFFF
SRV = {"S1": ("192.0.2.111", 30490), "S2": ("2001:db8::112", 30490, 0, 0),
       # two servers that differ only in the scope id of their link-local address, one that differs from S1 in its port
       "S3": ("fe80::113", 30490, 0, 2), "S4": ("fe80::113", 30490, 0, 3), "S5": ("192.0.2.111", 30491)}
SRVNAME = {v: k for k, v in SRV.items()}


def sid_for(seed):
    return 0x1800 + seed % 0x7000


def eventgroups(sid):
    return {
        "E1": cfg_.Eventgroup(sid, 1, 1, 5, ("192.0.2.100", 3000), hdr.L4Protocols.UDP),
        "E2": cfg_.Eventgroup(sid, 2, 3, 6, ("2001:db8::100", 3001, 0, 0), hdr.L4Protocols.TCP),
    }


def expected_option(name):
    if name == "E1":
        return refcodec.v4("192.0.2.100", 3000, proto=17)
    return refcodec.v6(ipaddress.IPv6Address("2001:db8::100").packed, 3001, proto=6)


class Model:
    def __init__(self):
        self.requested = []  # (eg name, server name) in request order
        self.alive = False
        self.server = {n: set() for n in SRV}  # eventgroup names held by each server
        self.last_sub = {}  # (eg, server) -> time of the latest Subscribe on the wire
        self.since = {}  # (eg, server) -> time from which a Subscribe is owed

    def _canon_(self, now):
        return (tuple(self.requested), self.alive, tuple(sorted((k, tuple(sorted(v))) for k, v in self.server.items())),
                tuple(sorted((k, now - v) for k, v in self.last_sub.items())),
                tuple(sorted((k, now - v) for k, v in self.since.items())))


class Sys(e1.TimedSys):
    def setup(self, cfg):
        self.sid = cfg["sid"]
        self.advs = tuple(cfg["advs"])
        self.max_deviations = cfg.get("deviations", 0)
        self.ttl = cfg["ttl"]
        self.refresh = cfg["refresh"]
        self.pairs = cfg["pairs"]
        # earlier in this process the same local socket addresses were used with the other transport protocol
        # (an eventgroup of another service subscribed over TCP where this one uses UDP, and vice versa)
        for eg in eventgroups(self.sid).values():
            other = hdr.L4Protocols.TCP if eg.protocol == hdr.L4Protocols.UDP else hdr.L4Protocols.UDP
            for ttl in (cfg["ttl"], 3, 0):
                cfg_.Eventgroup(self.sid ^ 0x0101, 7, 7, 9, eg.sockname, other).create_subscribe_entry(ttl)
        self.seam = RandomSeam(Choice())
        self.seam.__enter__()
        self.prot = make_sd(self.loop, timings(SUBSCRIBE_TTL=self.ttl, SUBSCRIBE_REFRESH_INTERVAL=self.refresh))
        self.egs = eventgroups(self.sid)
        self.model = Model()
        self.nsent = 0

    def close(self):
        self.seam.__exit__(None, None, None)
        super().close()

    def roots(self):
        return [self.prot, self.model]

    def actions(self):
        m = self.model
        held = [h.args[0] for h in self.held]
        req = list(m.requested)
        alive = m.alive
        for h in held:  # calls already pending in this iteration
            if h[0] == "sub":
                req.append((h[1], h[2]))
            elif h[0] == "unsub" and (h[1], h[2]) in req:
                req.remove((h[1], h[2]))
            elif h[0] == "start":
                alive = True
            elif h[0] == "stop":
                alive = False
        acts = []
        for e, s in self.pairs:
            acts.append(("unsub", e, s) if (e, s) in req else ("sub", e, s))
        acts.append(("stop",) if alive else ("start",))
        if self.cfg.get("reboots") and not held:
            # the SD protocol object detected a reboot of a server and tells the subscriber (the protocol's fan-out is
            # C07's job): whatever the subscriber does about it, nothing may be requested while it is stopped
            acts += [("reboot", s) for s in sorted({s for _, s in self.pairs})]
        return acts

    def do(self, act):
        m = self.model
        sub = self.prot.subscriber
        now = self.loop.time()
        if act[0] == "sub":
            m.requested.append((act[1], act[2]))
            m.since[(act[1], act[2])] = now
            sub.subscribe_eventgroup(self.egs[act[1]], SRV[act[2]])
        elif act[0] == "unsub":
            m.requested.remove((act[1], act[2]))
            m.since.pop((act[1], act[2]), None)
            # requests name eventgroups by value: the stop comes with an equal description that is another object
            # (the auto-subscribe listener builds a fresh one for every call)
            import dataclasses
            sub.stop_subscribe_eventgroup(dataclasses.replace(self.egs[act[1]]), tuple(SRV[act[2]]))
        elif act[0] == "start":
            m.alive = True
            for p in m.requested:
                m.since[p] = now
            sub.start()
        elif act[0] == "stop":
            m.alive = False
            sub.stop()
        elif act[0] == "reboot":
            sub.reboot_detected(SRV[act[1]])

    def after_step(self, ev):
        m = self.model
        sent = self.prot.transport.sent[self.nsent:]
        self.nsent = len(self.prot.transport.sent)
        kinds = []
        for t, it, data, addr in sent:
            sname = SRVNAME.get(addr)
            if sname is None:
                self.viol("destination", "multicast" if addr == MCAST else "unknown",
                          f"subscription message sent to {addr}")
                continue
            try:
                msgs = refcodec.dec_sd_datagram(data)
            except refcodec.RefError as e:
                self.viol("wire", "undecodable", str(e))
                continue
            for msg in msgs:
                for e in msg["entries"]:
                    if e[0] != "subscribe":
                        self.viol("wire", "other-entry", f"{e[:6]}")
                        continue
                    kind, sid, iid, major, ttl, last, r1, r2 = e
                    name = next((n for n, g in self.egs.items()
                                 if (g.service_id, g.instance_id, g.major_version, g.eventgroup_id) ==
                                 (sid, iid, major, last & 0xFFFF)), None)
                    kinds.append((sname, name, ttl))
                    if name is None:
                        self.viol("entry", "ids", f"Subscribe with unknown ids {e[:6]}")
                        continue
                    if r1 + r2 != (expected_option(name),):
                        self.viol("entry", "endpoint-option", f"{name}: options {r1 + r2}, expected {(expected_option(name),)}")
                    if ttl == 0:
                        m.server[sname].discard(name)
                    else:
                        if ttl != self.ttl:
                            self.viol("entry", "ttl", f"Subscribe for {name} with TTL {ttl}, configured {self.ttl}")
                        if (name, sname) not in m.requested and not self.held:
                            # a Subscribe for something that is not requested (any more) is only fine if a
                            # StopSubscribe follows; the idle check below decides
                            pass
                        m.server[sname].add(name)
                        prev = m.last_sub.get((name, sname))
                        if prev is not None and self.refresh is not None and t - prev > self.refresh + self.loop._clock_resolution:
                            # (last_sub only holds pairs that were requested and alive without interruption)
                            self.viol("refresh", "late", f"{(name, sname)}: Subscribe at {t}, the one before at {prev}, refresh "
                                      f"interval {self.refresh}")
                        m.last_sub[(name, sname)] = t
        self.last_kinds = kinds
        self.outcome = tuple((k[2] != 0) for k in kinds)
        if not self.loop.idle() or self.held:
            return
        now = self.loop.time()
        for sname in SRV:
            want = {e for e, s in m.requested if s == sname} if m.alive else set()
            if m.server[sname] != want:
                extra = m.server[sname] - want
                disc = ("holds-after-stop" if not m.alive else "holds-unrequested") if extra else "misses-requested"
                self.viol("mirror", disc, f"server {sname} holds {sorted(m.server[sname])}, requested "
                          f"{sorted(want)} (subscriber alive={m.alive}, event {ev})")
        # bookkeeping kept bounded: a Subscribe seen after 'since' settles the debt
        for p in list(m.since):
            if p in m.last_sub and m.last_sub[p] >= m.since[p]:
                del m.since[p]
        if m.alive:
            for p in m.requested:
                if p in m.since:
                    if now > m.since[p]:
                        self.viol("refresh", "never-sent", f"{p}: requested since {m.since[p]}, no Subscribe seen by {now}")
                elif self.refresh is not None:
                    last = m.last_sub.get(p)
                    if last is None or now - last > self.refresh + self.loop._clock_resolution:
                        self.viol("refresh", "late", f"{p}: latest Subscribe at {last}, now {now}, refresh interval {self.refresh}")
        for k in [k for k in m.last_sub if k not in m.requested or not m.alive or self.refresh is None]:
            del m.last_sub[k]
        if not m.alive:
            m.since.clear()

    def describe_step(self):
        return self.last_kinds


CLOSURE = 40


def configs(ctx):
    sid = sid_for(ctx.seed)
    base = (None, "half", "next", "next-2r")
    out = []
    all_pairs = (("E1", "S1"), ("E2", "S1"), ("E1", "S2"), ("E2", "S2"))
    out.append(("ttl3-refresh2-two-pairs", dict(sid=sid, advs=base, ttl=3, refresh=2, pairs=all_pairs[:2],
                                                deviations=1, fine=1), CLOSURE))
    out.append(("ttl3-refresh2-server-reboots", dict(sid=sid, advs=(None, "next"), ttl=3, refresh=2, pairs=(all_pairs[0], all_pairs[2]),
                                                     deviations=0, fine=0, reboots=True), CLOSURE))
    # three calls inside one loop iteration (two held calls + one): one pair is enough
    out.append(("ttl3-refresh2-one-pair-3-calls", dict(sid=sid, advs=(None, "next"), ttl=3, refresh=2, pairs=all_pairs[:1],
                                                       deviations=ctx.pick(2, 3), fine=0), CLOSURE))
    if ctx.thorough:
        out.append(("ttl3-refresh2-two-pairs-dev2", dict(sid=sid, advs=base, ttl=3, refresh=2, pairs=all_pairs[:2],
                                                         deviations=2, fine=1), CLOSURE))
    out.append(("ttl3-refresh2-four-pairs", dict(sid=sid, advs=(None, "next"), ttl=3, refresh=2, pairs=all_pairs,
                                                 deviations=ctx.pick(0, 1), fine=0), ctx.pick(5, 8)))
    alias = (("E1", "S3"), ("E1", "S4"), ("E1", "S1"), ("E1", "S5"))
    out.append(("ttl3-refresh2-aliased-server-addresses", dict(sid=sid, advs=(None, "next"), ttl=3, refresh=2, pairs=alias,
                                                               deviations=1, fine=0), ctx.pick(5, 8)))
    out.append(("ttl-forever-no-refresh", dict(sid=sid, advs=(None, "half"), ttl=INF, refresh=None, pairs=all_pairs[1:3],
                                               deviations=ctx.pick(1, 2), fine=0), CLOSURE))
    return out


def many_eventgroups(args):
    """N eventgroups requested from one server (N up to 300): the burst after start(), a refresh and the StopSubscribe
    burst of stop() each carry all of them - the reference server holds exactly the requested set, then nothing"""
    sid, count, ttl, refresh = args
    from ..vloop import VLoop
    loop = VLoop().install()
    seam = RandomSeam(Choice())
    seam.__enter__()
    viols = []
    try:
        prot = make_sd(loop, timings(SUBSCRIBE_TTL=ttl, SUBSCRIBE_REFRESH_INTERVAL=refresh))
        sub = prot.subscriber
        srv = SRV["S1"]
        want = set(range(1, count + 1))
        for eg in sorted(want):
            sub.subscribe_eventgroup(cfg_.Eventgroup(sid, 1, 1, eg, ("192.0.2.100", 3000), hdr.L4Protocols.UDP), srv)
        held = set()
        seen_since = set()

        def absorb():
            for t, it, data, addr in prot.transport.sent:
                for msg in refcodec.dec_sd_datagram(data):
                    for e in msg["entries"]:
                        if e[0] == "subscribe" and addr == srv:
                            (held.discard if e[4] == 0 else held.add)(e[5] & 0xFFFF)
                            if e[4]:
                                seen_since.add(e[5] & 0xFFFF)
            prot.transport.sent.clear()

        sub.start()
        loop.settle()
        absorb()
        case = dict(many_eventgroups=count, ttl=ttl)
        if held != want:
            viols.append(("mirror", "misses-requested-many-eventgroups", f"{count} eventgroups requested from one server, after start "
                          f"the server misses {sorted(want - held)[:5]}"))
        if refresh is not None:
            seen_since.clear()
            loop.run_until(loop.time() + refresh + 2 ** -6)
            absorb()
            if seen_since != want:
                viols.append(("refresh", "late-many-eventgroups", f"{count} eventgroups: not refreshed within one interval: "
                              f"{sorted(want - seen_since)[:5]}"))
        sub.stop()
        loop.settle()
        absorb()
        if held:
            viols.append(("mirror", "holds-after-stop-many-eventgroups", f"{count} eventgroups: after stop() the server still holds "
                          f"{sorted(held)[:5]}"))
    except Exception as e:  # noqa: BLE001
        viols.append(("no-exception", type(e).__name__ + "-many-eventgroups", f"{type(e).__name__}: {e}"))
    finally:
        seam.__exit__(None, None, None)
        loop.dispose()
    return count, viols


def refresh_instant_requests(args):
    """requests made at a refresh instant: before the timer of the refresh round (pre), in the same loop iteration after
    it (post - the round is due, its task has not run yet), one iteration later; single calls and calls back-to-back
    (stop+subscribe, stop+subscribe+stop, ...).  A server that applies the entries in the order they arrive ends up
    holding exactly what is requested"""
    sid, ttl, refresh = args
    from ..vloop import VLoop
    viols = []
    n = 0
    patterns = (("unsub", "sub"), ("sub2",), ("unsub",), ("unsub", "sub", "unsub"), ("unsub", "sub", "unsub", "sub"), ("sub2", "unsub2"),
                ("unsub", "sub2", "sub"))
    for pos in ("pre", "post", "post+1", "post+2"):
        for pattern in patterns:
            loop = VLoop().install()
            seam = RandomSeam(Choice())
            seam.__enter__()
            try:
                prot = make_sd(loop, timings(SUBSCRIBE_TTL=ttl, SUBSCRIBE_REFRESH_INTERVAL=refresh))
                sub = prot.subscriber
                srv = SRV["S1"]
                eg = {1: cfg_.Eventgroup(sid, 1, 1, 1, ("192.0.2.100", 3000), hdr.L4Protocols.UDP),
                      2: cfg_.Eventgroup(sid, 1, 1, 2, ("192.0.2.100", 3000), hdr.L4Protocols.UDP),
                      3: cfg_.Eventgroup(sid, 1, 1, 3, ("192.0.2.100", 3000), hdr.L4Protocols.UDP)}
                want = {1, 3}
                sub.subscribe_eventgroup(eg[1], srv)
                sub.subscribe_eventgroup(eg[3], srv)
                sub.start()
                loop.settle()
                t_refresh = loop.next_timer()

                def calls():
                    import dataclasses
                    for c in pattern:
                        k = 2 if c.endswith("2") else 1
                        if c.startswith("sub"):
                            want.add(k)
                            sub.subscribe_eventgroup(dataclasses.replace(eg[k]), srv)
                        else:
                            want.discard(k)
                            sub.stop_subscribe_eventgroup(dataclasses.replace(eg[k]), srv)

                loop.advance_to(t_refresh)
                if pos == "pre":
                    loop.iterate(pre=[calls])
                elif pos == "post":
                    loop.iterate(post=[calls])
                else:
                    for _ in range(int(pos[-1])):
                        loop.iterate()
                    loop.iterate(post=[calls])
                loop.settle()
                loop.run_until(t_refresh + refresh / 2)
                n += 1
                held = set()
                for t, it, data, addr in prot.transport.sent:
                    for msg in refcodec.dec_sd_datagram(data):
                        for e in msg["entries"]:
                            if e[0] == "subscribe" and addr == srv:
                                (held.discard if e[4] == 0 else held.add)(e[5] & 0xFFFF)
                if held != want:
                    disc = "misses-requested" if want - held else "holds-unrequested"
                    viols.append(("mirror", disc + "-at-refresh-instant",
                                  f"calls {pattern} at the refresh instant t={t_refresh} ({pos}; TTL {ttl}, refresh {refresh}): the server "
                                  f"holds eventgroups {sorted(held)}, requested {sorted(want)}", [pos, list(pattern)]))
            except Exception as e:  # noqa: BLE001
                viols.append(("no-exception", type(e).__name__ + "-at-refresh-instant", f"{pos} {pattern}: {type(e).__name__}: {e}",
                              [pos, list(pattern)]))
            finally:
                seam.__exit__(None, None, None)
                loop.dispose()
    return n, viols


def check(ctx):
    details, viols = [], []
    samples = core.Samples()
    jobs = [(sid_for(ctx.seed), n, ttl, refresh) for n in (3, 16, 17, 34, 35, 64, 65, 128, 255, 256, 300) for ttl, refresh in ((3, 2), (INF, None))]
    for (sid_, n, ttl, refresh), (_, vs) in zip(jobs, core.pmap(many_eventgroups, jobs, 2)):
        for clause, disc, detail in vs:
            viols.append(core.Violation(ctx.prop, clause, disc, dict(many_eventgroups=n, ttl=ttl, refresh=refresh, seed=ctx.seed), detail=detail))
    rjobs = [(sid_for(ctx.seed), 3, 2), (sid_for(ctx.seed), 5, 0.5)]
    nri = 0
    for (sid_, ttl, refresh), (k, vs) in zip(rjobs, core.pmap(refresh_instant_requests, rjobs, 1)):
        nri += k
        for clause, disc, detail, where in vs:
            viols.append(core.Violation(ctx.prop, clause, disc, dict(refresh_instant=where, ttl=ttl, refresh=refresh, seed=ctx.seed), detail=detail))
    core.close_pool()
    for name, cfg, depth in configs(ctx):
        if viols and core.unknown_violation_pred(ctx.prop)([dict(clause=v.clause, disc=v.disc) for v in viols]):
            break  # already decided by the parts above; the searches would only add to it
        res, vs, det = e1.search(ctx, Sys, cfg, depth, name)
        core.close_pool()
        details.append(det)
        viols += vs
        if res.deepest is not None:
            samples.add(dict(search=name, history=res.deepest[0]))
    cov = e1.summarize(details)
    cov["samples"] = samples.out()
    cov["exhaustive"] = not cov["caps_hit"]
    cov["depth_completed"] = {d["search"]: d["depth_completed"] for d in details}
    cov["refresh_instant_cases"] = nri
    return core.finish(ctx, "model_checking", cov, viols, [
        "duplicate subscribes of the same eventgroup to the same server are excluded by the quantifier and not generated",
        "the reference server applies entries in wire order per destination",
    ])


def replay(ctx, body):
    if "refresh_instant" in body["case"]:
        c = body["case"]
        _, vs = refresh_instant_requests((sid_for(c.get("seed", ctx.seed)), c["ttl"], c["refresh"]))
        vs = [v for v in vs if [v[3][0], list(v[3][1])] == [c["refresh_instant"][0], list(c["refresh_instant"][1])]]
        for v in vs:
            print("FAILS:", v[:3])
        return 1 if vs else 0
    if "many_eventgroups" in body["case"]:
        c = body["case"]
        _, vs = many_eventgroups((sid_for(c.get("seed", ctx.seed)), c["many_eventgroups"], c["ttl"], c["refresh"]))
        for v in vs:
            print("FAILS:", v)
        return 1 if vs else 0
    return e1.replay_case(Sys, body)
