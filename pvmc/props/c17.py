"""C17 - event notifications reach exactly the current subscribers, correctly addressed (E1).

Real code driven: SimpleService.client_subscribed / client_unsubscribed with real
EventgroupSubscription objects, SimpleEventgroup.notify_once, the cyclic notification task;
VLoop.getaddrinfo is the in-process numeric resolver."""
from __future__ import annotations

import ipaddress

import someip.header as hdr
import someip.sd as sd
import someip.service as svc

from .. import canon, core, e1, refcodec
from ..vloop import FakeTransport

EP = {
    "e1": hdr.IPv4EndpointOption(ipaddress.IPv4Address("192.0.2.131"), hdr.L4Protocols.UDP, 4001),
    "e2": hdr.IPv6EndpointOption(ipaddress.IPv6Address("2001:db8::132"), hdr.L4Protocols.UDP, 4002),
    "e3": hdr.IPv4EndpointOption(ipaddress.IPv4Address("192.0.2.131"), hdr.L4Protocols.UDP, 4003),
    # the TCP twin of e1: same address and port, another endpoint (datagrams for it go to e1's socket address)
    "e1t": hdr.IPv4EndpointOption(ipaddress.IPv4Address("192.0.2.131"), hdr.L4Protocols.TCP, 4001),
}
ADDR = {"e1": ("192.0.2.131", 4001), "e2": ("2001:db8::132", 4002, 0, 0), "e3": ("192.0.2.131", 4003)}
ADDRNAME = {v: k for k, v in ADDR.items()}
DEST = {"e1t": "e1"}


def dn(e):
    return DEST.get(e, e)
SRC = ("192.0.2.139", 30490)
GROUP_EVENTS = {5: (1, 2), 6: (3,)}
INTERVAL = 1.0


def sid_for(seed):
    return 0x2100 + seed % 0x5000


class Model:
    def __init__(self):
        self.subs = {5: [], 6: []}  # endpoint names, in subscription order
        self.values = {1: b"\x01", 2: b"\x02", 3: b"\x03"}
        self.version = 3
        self.cyc_next = None  # next cyclic round of group 6, or None while it waits for clients
        self.events6 = (3,)  # events of the cyclic group that have a value

    def _canon_(self, now):
        return (tuple((g, tuple(v)) for g, v in sorted(self.subs.items())), tuple(sorted(self.values.items())),
                None if self.cyc_next is None else self.cyc_next - now, self.events6)


class Sys(e1.TimedSys):
    def setup(self, cfg):
        self.sid = cfg["sid"]
        self.major = cfg["major"]
        self.advs = tuple(cfg["advs"])
        self.max_deviations = cfg.get("deviations", 0)
        self.groups = cfg["groups"]
        self.endpoints = cfg["endpoints"]
        self.one_after_advance = bool(cfg.get("new_event") or cfg.get("inside_cyclic_round"))

        class S(svc.SimpleService):
            service_id = self.sid
            version_major = self.major
            version_minor = 0

        self.service = S(instance_id=1)
        self.service.transport = FakeTransport(self.loop, sockname=("192.0.2.1", 30501))
        self.model = Model()
        self.eg = {}
        for g in self.groups:
            self.eg[g] = svc.SimpleEventgroup(self.service, id=g, interval=INTERVAL if g == 6 else None)
            for ev in GROUP_EVENTS[g]:
                self.eg[g].values[ev] = self.model.values[ev]
            self.service.register_eventgroup(self.eg[g])
        self.loop.settle()
        self.nsent = 0
        self.counter = {}  # destination -> last session id seen (not part of the state key, see A1)
        self.expect = []  # alternatives: list of lists of (dest name, ((event, payload), ...))
        self.step_calls = 0

    def roots(self):
        return [self.service, self.model] + [self.eg[g] for g in self.groups]

    def actions(self):
        m = self.model
        held = [h.args[0] for h in self.held]
        acts = []
        for g in self.groups:
            cur = list(m.subs[g])
            for h in held:
                if h[0] == "sub" and h[1] == g:
                    cur.append(h[2])
                if h[0] == "unsub" and h[1] == g and h[2] in cur:
                    cur.remove(h[2])
            for e in self.endpoints:
                acts.append(("unsub", g, e) if e in cur else ("sub", g, e))
                if e not in cur and not held:
                    acts.append(("unsub-unknown", g, e))
            evs = GROUP_EVENTS[g]
            subsets = [evs] if len(evs) == 1 else [(evs[0],), (evs[1],), evs, ()]
            for sset in subsets:
                acts.append(("notify", g, tuple(sset)))
            acts.append(("set", evs[0]))
        if self.cfg.get("new_event") and 6 in self.groups and m.events6 == (3,) and not held:
            acts.append(("set-new", 4))  # an event of the cyclic group gets its first value
        if not held:
            acts += [("bad", "no-endpoint"), ("bad", "two-endpoints"), ("bad", "unknown-eventgroup")]
            if "e1t" in self.endpoints:
                acts.append(("bad", "two-endpoints-udp-tcp-twins"))
        return acts

    def _subscription(self, g, eps):
        return sd.EventgroupSubscription(service_id=self.sid, instance_id=1, major_version=self.major, id=g, counter=0,
                                         ttl=3, endpoints=frozenset(eps))

    def do(self, act):
        m = self.model
        now = self.loop.time()
        self.step_calls += 1
        if act[0] == "sub":
            _, g, e = act
            self.service.client_subscribed(self._subscription(g, [EP[e]]), SRC)
            m.subs[g].append(e)
            if GROUP_EVENTS[g]:
                self.pending.append(("initial", g, e, GROUP_EVENTS[g] if g != 6 else m.events6, {}))
            if g == 6 and m.cyc_next is None:
                m.cyc_next = now + INTERVAL
        elif act[0] == "unsub":
            _, g, e = act
            self.service.client_unsubscribed(self._subscription(g, [EP[e]]), SRC)
            m.subs[g].remove(e)
        elif act[0] == "unsub-unknown":
            # an unsubscribe for an endpoint that is not subscribed (a late or repeated StopSubscribe):
            # must not raise and must not disturb the other subscribers
            _, g, e = act
            before = canon.roots_key(self.loop, self.roots())
            self.service.client_unsubscribed(self._subscription(g, [EP[e]]), SRC)
            if canon.roots_key(self.loop, self.roots()) != before:
                self.viol("unknown-unsubscribe", "state-changed", f"unsubscribing {e}, which is not subscribed to group {g}, changed state")
        elif act[0] == "set":
            old = m.values[act[1]]
            v = bytes([act[1], 1 - old[1]]) if len(old) > 1 else bytes([act[1], 0])
            m.values[act[1]] = v
            for p in self.pending:
                p[-1].setdefault(act[1], set()).update((old, v))
            self.step_values.setdefault(act[1], set()).add(v)
            g = 5 if act[1] in GROUP_EVENTS[5] else 6
            self.eg[g].values[act[1]] = v
        elif act[0] == "set-new":
            m.values[4] = b"\x04"
            m.events6 = (3, 4)
            self.new_event_window = True  # rounds / initial notifications on their way may or may not include it
            if self.cfg.get("new_event") == "rebind":
                # the application replaces the whole table (`values` is a plain public attribute) instead of adding a key
                self.eg[6].values = {**self.eg[6].values, 4: b"\x04"}
            else:
                self.eg[6].values[4] = b"\x04"
        elif act[0] == "notify":
            _, g, evs = act
            self.eg[g].notify_once(list(evs))
            if m.subs[g]:
                # the round goes to the endpoints subscribed 'at that time': the set at the call, or the
                # set when the round's task starts (next iteration) - both are accepted
                self.pending.append(["round", g, tuple(m.subs[g]), evs, None, {}])
        elif act[0] == "bad":
            before = canon.roots_key(self.loop, self.roots())
            if act[1] == "no-endpoint":
                subn = self._subscription(self.groups[0], [])
            elif act[1] == "two-endpoints":
                subn = self._subscription(self.groups[0], [EP["e1"], EP["e2"]])
            elif act[1] == "two-endpoints-udp-tcp-twins":
                subn = self._subscription(self.groups[0], [EP["e1"], EP["e1t"]])
            else:
                subn = self._subscription(9, [EP["e1"]])
            try:
                self.service.client_subscribed(subn, SRC)
            except sd.NakSubscription:
                pass
            else:
                self.viol("bad-subscription", f"accepted-{act[1]}", f"{act[1]}: client_subscribed did not raise NakSubscription")
            if canon.roots_key(self.loop, self.roots()) != before:
                self.viol("bad-subscription", f"state-changed-{act[1]}", f"{act[1]}: the refused subscription changed state")

    def on_exception(self, act, e):
        self.viol("no-exception", f"{act[0]}-{type(e).__name__}", f"action {act} raised {type(e).__name__}: {e}")

    def before_step(self, ev):
        if not hasattr(self, "pending") or (self.loop.idle() and not self.held):
            self.pending = []
        m = self.model
        now = self.loop.time()
        r = self.loop._clock_resolution
        self.round_due = m.cyc_next is not None and m.cyc_next < now + r
        if self.round_due and getattr(self, "round_subs0", None) is None:
            self.round_subs0 = tuple(m.subs[6])  # the subscribers when the cyclic round's timer fires
        self.step_values = {k: {v} for k, v in m.values.items()}
        if self.loop.idle() and not self.held:
            self.new_event_window = False

    def after_step(self, ev):
        m = self.model
        sent = self.service.transport.sent[self.nsent:]
        self.nsent = len(self.service.transport.sent)
        got = []
        for t, it, data, addr in sent:
            dname = ADDRNAME.get(addr, str(addr))
            msgs, err, _ = refcodec.dec_someip_all(data)
            if err:
                self.viol("wire", "undecodable", f"datagram to {addr}: {err}")
                continue
            items = []
            for x in msgs:
                if (x["service"], x["client"], x["iface"], x["mtype"], x["code"], x["protover"]) != (
                        self.sid, 0, self.major, 2, 0, 1) or not (x["method"] & 0x8000):
                    self.viol("header", "fields", f"notification header {dict((k, v) for k, v in x.items() if k != 'payload')}")
                want = self.counter.get(dname, 0) % 0xFFFF + 1
                if x["session"] != want:
                    self.viol("session", "sequence", f"notification to {dname} carries session id {x['session']}, expected {want}")
                self.counter[dname] = x["session"]
                items.append((x["method"] & 0x7FFF, x["payload"]))
            got.append((dname, tuple(items)))
        self.last_got = got
        self.outcome = tuple(sorted((d, len(i)) for d, i in got))
        # the round's task starts in the iteration after the call: the subscriber set at the end of the
        # call's iteration is the second accepted reading of 'subscribed at that time'
        for p in self.pending:
            if p[0] == "round" and p[4] is None:
                p[4] = tuple(m.subs[p[1]])
        if not self.loop.idle() or self.held:
            self.got_acc = getattr(self, "got_acc", []) + got
            return
        got = getattr(self, "got_acc", []) + got
        self.got_acc = []
        # a notification carries the value that is current when it is sent; the sending happens one or
        # two loop iterations after the call, so every value that was current between the call and this
        # idle point is accepted (a single value unless a set-value call fell into that window)
        allowed = {}
        base = []
        alts = [[]]
        for p in self.pending:
            for evn in p[3]:
                allowed.setdefault(evn, set()).update(p[-1].get(evn, ()))
                allowed[evn].add(m.values[evn])
            if p[0] == "initial":
                base.append((dn(p[2]), tuple(p[3])))
            else:
                _, g, at_call, evs, at_start, _ = p
                if not evs:
                    continue
                a = [(dn(e), tuple(evs)) for e in at_call]
                b = [(dn(e), tuple(evs)) for e in (at_start if at_start is not None else m.subs[g])]
                alts = [x + a for x in alts] + ([x + b for x in alts] if sorted(a) != sorted(b) else [])
        for p in self.pending:
            # the value at the call itself
            pass
        if self.round_due:
            # 'subscribed at that time': when the round's timer fired, or when the loop is idle again (a subscribe /
            # unsubscribe call may fall between the timer and the round's datagrams)
            r0 = [(dn(e), tuple(m.events6)) for e in (self.round_subs0 or ())]
            r1 = [(dn(e), tuple(m.events6)) for e in m.subs[6]]
            self.round_subs0 = None
            if sorted(r0) != sorted(r1):
                alts = [x + r0 for x in alts] + [x + r1 for x in alts]
            else:
                base += r1
            for evn in m.events6:
                allowed.setdefault(evn, set()).add(m.values[evn])
                allowed[evn].update(self.step_values.get(evn, ()))
            m.cyc_next = (m.cyc_next + INTERVAL) if m.subs[6] else None
        self.pending = []
        shape = sorted((d, tuple(e for e, _ in items)) for d, items in got)
        if getattr(self, "new_event_window", False):
            # the new event got its value while these datagrams were on their way: with or without it is fine
            strip = lambda lst: sorted((d, tuple(e for e in evs if e != 4)) for d, evs in lst)  # noqa: E731
            shape = strip(shape)
            base = strip(base)
            alts = [strip(a) for a in alts]
        ok = any(shape == sorted(base + a) for a in alts)
        if not ok:
            exp = sorted(base + alts[0])
            if len(shape) > len(exp):
                extra = [x for x in shape if x not in exp]
                disc = "extra-to-" + ("unsubscribed" if extra and all(
                    extra[0][0] not in m.subs[k] for k in m.subs) else "subscriber")
            elif len(shape) < len(exp):
                disc = "missing"
            else:
                disc = "events-or-destination"
            self.viol("notifications", disc, f"event {ev}: datagrams (destination, events) {shape}, expected {exp}")
        for d, items in got:
            for evn, payload in items:
                if payload not in allowed.get(evn, {m.values.get(evn)}):
                    self.viol("notifications", "payload", f"event {evn} sent to {d} with payload {payload!r}, "
                              f"current value(s) {sorted(allowed.get(evn, ()))}")

    def describe_step(self):
        return self.last_got


CLOSURE = 40


def configs(ctx):
    sid = sid_for(ctx.seed)
    major = 1 + ctx.seed % 100
    out = []
    out.append(("manual-group-3-endpoints", dict(sid=sid, major=major, advs=(None,), groups=(5,), endpoints=("e1", "e2", "e3"),
                                                 deviations=ctx.pick(1, 2), fine=0), CLOSURE))
    out.append(("cyclic-group-2-endpoints", dict(sid=sid, major=major, advs=(None, "half", "next", "next-2r"), groups=(6,),
                                                 endpoints=("e1", "e2"), deviations=ctx.pick(1, 2), fine=1,
                                                 inside_cyclic_round=not ctx.thorough), CLOSURE))
    if ctx.thorough:
        # stepping inside a cyclic round with ONE deviation only: with two, a subscribe can fall between the end of a
        # round that found no subscribers and the idle point, where the reference model cannot tell whether the cycle
        # restarts (it does) - the statement does not fix the phase of cyclic rounds, so that is not judged
        out.append(("cyclic-group-2-endpoints-inside-round", dict(sid=sid, major=major, advs=(None, "half", "next"), groups=(6,),
                                                                  endpoints=("e1", "e2"), deviations=1, fine=0,
                                                                  inside_cyclic_round=True), CLOSURE))
    out.append(("manual-group-udp-tcp-twin-endpoints", dict(sid=sid, major=major, advs=(None,), groups=(5,),
                                                            endpoints=("e1", "e1t", "e2"), deviations=1, fine=0), CLOSURE))
    out.append(("cyclic-group-udp-tcp-twin-endpoints", dict(sid=sid, major=major, advs=(None, "next"), groups=(6,),
                                                            endpoints=("e1", "e1t"), deviations=0, fine=0), CLOSURE))
    out.append(("cyclic-group-new-event", dict(sid=sid, major=major, advs=(None, "next"), groups=(6,), endpoints=("e1",),
                                               deviations=1, fine=0, new_event=True), CLOSURE))
    out.append(("cyclic-group-values-replaced", dict(sid=sid, major=major, advs=(None, "next"), groups=(6,), endpoints=("e1",),
                                                     deviations=1, fine=0, new_event="rebind"), CLOSURE))
    out.append(("both-groups", dict(sid=sid, major=major, advs=(None, "next"), groups=(5, 6), endpoints=("e1", "e2"),
                                    deviations=ctx.pick(0, 1), fine=0), CLOSURE))
    return out


def wrap_walk(args):
    """one subscriber through the session-id wrap by real rounds of two events per datagram (the wrap falls inside a
    datagram): every round must arrive, ids 1..0xFFFF, 1, ... without 0, a gap or a repeat"""
    sid, major, rounds = args
    from ..vloop import VLoop
    loop = VLoop().install()
    viols = []
    try:
        class S(svc.SimpleService):
            service_id = sid
            version_major = major
            version_minor = 0

        service = S(instance_id=1)
        service.transport = FakeTransport(loop, sockname=("192.0.2.1", 30501))
        eg = svc.SimpleEventgroup(service, id=5)
        eg.values[1] = b"\x01"
        eg.values[2] = b"\x02"
        service.register_eventgroup(eg)
        service.client_subscribed(sd.EventgroupSubscription(service_id=sid, instance_id=1, major_version=major, id=5, counter=0,
                                                            ttl=3, endpoints=frozenset([EP["e1"]])), SRC)
        loop.settle()
        want = 1
        n = 0
        for rnd in range(rounds + 1):
            if rnd:
                eg.notify_once([1, 2])
                loop.settle()
            sent = service.transport.sent
            got = []
            for t, it, data, addr in sent:
                msgs, err, _ = refcodec.dec_someip_all(data)
                if err or addr != ADDR["e1"]:
                    viols.append(("wire", "undecodable-or-destination", f"round {rnd}: {err} to {addr}", rnd))
                got += [(x["method"] & 0x7FFF, x["session"], x["payload"]) for x in msgs]
            sent.clear()
            n += 1
            exp = []
            for evn in (1, 2):
                exp.append((evn, want, bytes([evn])))
                want = want % 0xFFFF + 1
            if got != exp:
                viols.append(("session", "wrap-walk", f"round {rnd} (0 = initial notification): notifications (event, session id, "
                              f"payload) {got}, expected {exp}", rnd))
                if len(viols) > 5:
                    break
                if got:
                    want = got[-1][1] % 0xFFFF + 1
        return n, viols
    finally:
        loop.dispose()


def event_id_walk(args):
    """every event id 0..0xFFFF once (ids are 16 bit; one with bit 15 set is the full notification id as interface
    descriptions write it): an explicit round of the events (1, id) arrives as one datagram with the method ids
    0x8001 and 0x8000 OR id, session ids going on; for ids around the bit-15 boundary also the initial notification of
    a fresh subscriber"""
    sid, major, lo, hi = args
    from ..vloop import VLoop
    loop = VLoop().install()
    viols = []
    n = 0
    try:
        class S(svc.SimpleService):
            service_id = sid
            version_major = major
            version_minor = 0

        service = S(instance_id=1)
        service.transport = FakeTransport(loop, sockname=("192.0.2.1", 30501))
        eg = svc.SimpleEventgroup(service, id=5)
        service.register_eventgroup(eg)
        sub = lambda e: sd.EventgroupSubscription(service_id=sid, instance_id=1, major_version=major, id=5, counter=0,  # noqa: E731
                                                  ttl=3, endpoints=frozenset([EP[e]]))
        service.client_subscribed(sub("e1"), SRC)
        loop.settle()
        sent = service.transport.sent
        sent.clear()
        want = {"e1": 1, "e2": 1}

        def pay(evn):
            """the value of an event: one byte, or nothing at all for every fifth id (a payload-less event)"""
            return b"" if evn % 5 == 0 else bytes([evn & 0xFF])

        def take(label, evs, dests):
            nonlocal n
            n += 1
            got = []
            for t, it, data, addr in sent:
                msgs, err, _ = refcodec.dec_someip_all(data)
                got.append((ADDRNAME.get(addr, str(addr)), err, tuple((x["method"], x["session"], x["payload"]) for x in msgs)))
            sent.clear()
            exp = []
            for d in dests:
                items = []
                for evn in evs:
                    items.append((0x8000 | evn, want[d], pay(evn)))
                    want[d] = want[d] % 0xFFFF + 1
                exp.append((d, None, tuple(items)))
            if sorted(got, key=repr) != sorted(exp, key=repr):
                viols.append(("header", "event-id-walk", f"{label}: datagrams (destination, error, (method id, session id, payload)) "
                              f"{got!r:.300}, expected {exp!r:.300}", evs[-1]))
                for d, err, items in got:
                    if items and d in want:
                        want[d] = items[-1][1] % 0xFFFF + 1
                return False
            return True

        for evn in range(lo, hi):
            eg.values.clear()
            evs = (1, evn) if evn != 1 else (1,)
            for e in evs:
                eg.values[e] = pay(e)
            eg.notify_once(list(evs))
            loop.settle()
            ok = take(f"explicit round of the events {evs}", evs, ("e1",))
            if evn in (0, 1, 2, 0x7FFE, 0x7FFF, 0x8000, 0x8001, 0x8002, 0xFFFE, 0xFFFF) or evn % 4099 == 0:
                service.client_subscribed(sub("e2"), SRC)
                loop.settle()
                ok = take(f"initial notification of a group with the events {evs}", evs, ("e2",)) and ok
                service.client_unsubscribed(sub("e2"), SRC)
                loop.settle()
            if len(viols) > 5:
                break
        return n, viols
    finally:
        loop.dispose()


def slow_lookup_walk(args):
    """the address lookups of a cyclic round stay pending for k/2 intervals (k = 1..7), then complete: the round is
    delivered to both subscribers and the cycle goes on, one round per interval"""
    sid, major = args
    from ..vloop import VLoop
    from ..world import install_log_capture
    viols = []
    n = 0
    for halves in range(1, 8):
        loop = VLoop().install()
        cap = install_log_capture()
        try:
            class S(svc.SimpleService):
                service_id = sid
                version_major = major
                version_minor = 0

            service = S(instance_id=1)
            service.transport = FakeTransport(loop, sockname=("192.0.2.1", 30501))
            eg = svc.SimpleEventgroup(service, id=6, interval=INTERVAL)
            eg.values[3] = b"\x03"
            service.register_eventgroup(eg)
            for e in ("e1", "e2"):
                service.client_subscribed(sd.EventgroupSubscription(service_id=sid, instance_id=1, major_version=major, id=6, counter=0,
                                                                    ttl=3, endpoints=frozenset([EP[e]])), SRC)
            loop.settle()
            service.transport.sent.clear()
            loop.gai_hold = 2
            loop.run_until(INTERVAL + halves * INTERVAL / 2)  # the round of t = INTERVAL is stuck in its lookups
            loop.gai_hold = 0
            while loop.gai_pending:
                loop.release_gai(0)
            loop.settle()
            t_rel = loop.time()
            loop.run_until(t_rel + 3 * INTERVAL + INTERVAL / 4)
            per = {}
            for t, it, data, addr in service.transport.sent:
                per.setdefault(ADDRNAME.get(addr, str(addr)), []).append(t)
            n += 1
            for e in ("e1", "e2"):
                ts = per.get(e, [])
                if len(ts) < 4 or not any(abs(t - t_rel) < 2 ** -10 for t in ts):
                    viols.append(("notifications", "cyclic-rounds-stop-after-slow-lookup",
                                  f"lookups of the cyclic round pending for {halves / 2} intervals: {e} received datagrams at {ts} "
                                  f"(lookups answered at {t_rel}); expected the stuck round then and one round per interval after it", halves))
            if cap.records:
                viols.append(("swallowed-exception", cap.records[0][1], str(cap.records[0])[:300], halves))
        finally:
            loop.dispose()
    return n, viols


def check(ctx):
    details, viols = [], []
    samples = core.Samples()
    nslow, sv = core.pmap(slow_lookup_walk, [(sid_for(ctx.seed), 1 + ctx.seed % 100)], 1)[0]
    for clause, disc, detail, h in sv:
        viols.append(core.Violation(ctx.prop, clause, disc, dict(slow_lookup=h, seed=ctx.seed), detail=detail))
    nwalk, wv = core.pmap(wrap_walk, [(sid_for(ctx.seed), 1 + ctx.seed % 100, 32800 + ctx.seed % 7)], 1)[0]
    chunks = [(sid_for(ctx.seed), 1 + ctx.seed % 100, lo, lo + 0x1000) for lo in range(0, 0x10000, 0x1000)]
    nids = 0
    for (_, _, lo, _), (k, ev) in zip(chunks, core.pmap(event_id_walk, chunks, 1)):
        nids += k
        for clause, disc, detail, evn in ev:
            viols.append(core.Violation(ctx.prop, clause, disc, dict(event_id_walk=[lo, lo + 0x1000], event=evn, seed=ctx.seed), detail=detail))
    core.close_pool()
    for clause, disc, detail, rnd in wv:
        viols.append(core.Violation(ctx.prop, clause, disc, dict(walk=True, round=rnd, seed=ctx.seed), detail=detail))
    for name, cfg, depth in configs(ctx):
        res, vs, det = e1.search(ctx, Sys, cfg, depth, name)
        core.close_pool()
        details.append(det)
        viols += vs
        if res.deepest is not None:
            samples.add(dict(search=name, history=res.deepest[0]))
    cov = e1.summarize(details)
    cov["samples"] = samples.out()
    cov["exhaustive"] = not cov["caps_hit"]
    cov["depth_completed"] = {d["search"]: d["depth_completed"] for d in details}
    cov["wrap_walk_rounds"] = nwalk
    cov["event_id_walk_rounds"] = nids
    return core.finish(ctx, "model_checking", cov, viols, [
        "two overlapping subscriptions naming the same endpoint are outside the quantifier and not generated",
        "per-destination session counters are left out of the state key (they only ever increase below the wrap in the "
        "searches; the wrap is walked separately by 32800 real rounds of two events, and by C08 phase iii); the oracle "
        "checks every id against the previous one",
        "getaddrinfo answers immediately (numeric resolution); a delayed answer is not explored",
    ])


def replay(ctx, body):
    if "slow_lookup" in body["case"]:
        seed = body["case"].get("seed", ctx.seed)
        n, sv = slow_lookup_walk((sid_for(seed), 1 + seed % 100))
        for v in sv:
            print("FAILS:", v[:3])
        return 1 if sv else 0
    if body["case"].get("event_id_walk"):
        seed = body["case"].get("seed", ctx.seed)
        lo, hi = body["case"]["event_id_walk"]
        n, wv = event_id_walk((sid_for(seed), 1 + seed % 100, lo, hi))
        for v in wv:
            print("FAILS:", v[:3])
        return 1 if wv else 0
    if body["case"].get("walk"):
        seed = body["case"].get("seed", ctx.seed)
        n, wv = wrap_walk((sid_for(seed), 1 + seed % 100, 32800 + seed % 7))
        for v in wv:
            print("FAILS:", v[:3])
        return 1 if wv else 0
    return e1.replay_case(Sys, body)
