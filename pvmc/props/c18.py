"""C18 - stream and datagram framing agree under arbitrary segmentation (E1, per-stream state space).

Real code driven: SOMEIPHeader.read / SOMEIPReader.read on a real asyncio.StreamReader living on
the virtual loop; chunks are fed with feed_data, the end with feed_eof.

Per stream of n bytes the state space is {fed prefix length p} x {EOF or not}.  For every p the
state reached by the single chunk [0:p) is computed; then for every pair p < q the state reached by
the two chunks [0:p) [p:q) must be the *same canonical state* (reader buffer, EOF flag, task frame
position and locals, messages delivered) as the single-chunk state of q.  By induction over the
number of chunks this covers all 2^(n-1) chunkings with O(n^2) executions."""
from __future__ import annotations

import asyncio
import itertools

import someip.header as hdr

from .. import canon, core, refcodec
from ..vloop import VLoop


def payload(n, salt):
    return bytes((i * 37 + salt) & 0xFF for i in range(n))


def message(k, plen, corrupt=None):
    b = bytearray(refcodec.enc_someip(0x1000 + k, 0x20 + k, k, 0x100 + k, 1 + k, (0, 1, 2, 0x80)[k % 4], 0, payload(plen, k)))
    if corrupt:
        field, val = corrupt
        if field == "protover":
            b[12] = val
        elif field == "mtype":
            b[14] = val
        elif field == "code":
            b[15] = val
        elif field == "length":
            b[4:8] = refcodec.tobe(val, 4)
    return bytes(b)


def reference(stream: bytes):
    """datagram decoding of the concatenation with the library's own parse loop:
    -> (messages, end offsets, index of the rejected header or None, start offset of it)"""
    msgs, ends = [], []
    buf = stream
    off = 0
    while buf:
        try:
            m, rest = hdr.SOMEIPHeader.parse(buf)
        except hdr.IncompleteReadError:
            return msgs, ends, None, off
        except hdr.ParseError:
            return msgs, ends, len(msgs), off
        off += len(buf) - len(rest)
        msgs.append(m)
        ends.append(off)
        buf = rest
    return msgs, ends, None, off


_FOREIGN = refcodec.enc_someip(0x7A7A, 0x0B0B, 0x0C0C, 0x0D0D, 0x0E, 0x02, 0, b"foreign message")


class Run:
    def __init__(self, use_wrapper):
        self.loop = VLoop().install()
        self.reader = asyncio.StreamReader(limit=2 ** 16, loop=self.loop)
        self.delivered = []
        self.error = None
        src = hdr.SOMEIPReader(self.reader) if use_wrapper else None

        async def pump():
            try:
                while True:
                    if src is not None:
                        m = await src.read()
                    else:
                        m = await hdr.SOMEIPHeader.read(self.reader)
                    self.delivered.append(m)
            except asyncio.IncompleteReadError as e:
                self.error = ("incomplete", len(e.partial))
            except hdr.IncompleteReadError:
                self.error = ("incomplete", None)
            except hdr.ParseError:
                self.error = ("parse-error", len(self.delivered))
            except Exception as e:  # noqa: BLE001
                self.error = ("other-exception", type(e).__name__)

        self.task = self.loop.create_task(pump())
        self.loop.settle()

    def feed(self, data):
        if data:
            self.reader.feed_data(data)
        self.loop.settle()
        # between two chunks of this stream the process decodes something else (a datagram of its SD endpoint, the
        # header of a message on another connection): one decoder's progress is its own
        hdr.SOMEIPHeader.parse(_FOREIGN)
        other = asyncio.StreamReader(limit=2 ** 16, loop=self.loop)
        other.feed_data(_FOREIGN[:20])
        t = self.loop.create_task(hdr.SOMEIPHeader.read(other))
        self.loop.settle()
        t.cancel()
        self.loop.settle()
        # ... and time passes before the next chunk arrives (a slow peer): 1.5 s, then 3 s on the virtual clock
        self.loop.run_until(self.loop.time() + (1.5 if len(self.delivered) % 2 == 0 else 3.0))

    def eof(self):
        self.reader.feed_eof()
        self.loop.settle()

    def state(self):
        snap = canon.snapshot(self.loop, [self.reader, self.task, tuple(self.delivered), self.error])
        return canon.key_of(snap)

    def close(self):
        self.loop.dispose()


def execute(stream, cuts, eof, use_wrapper):
    r = Run(use_wrapper)
    try:
        prev = 0
        for c in cuts:
            r.feed(stream[prev:c])
            prev = c
        if eof:
            r.eof()
        return r.state(), list(r.delivered), r.error
    finally:
        r.close()


def judge(stream, ref, p, eof, delivered, error):
    msgs, ends, bad, bad_off = ref
    out = []
    n_complete = sum(1 for e in ends if e <= p)
    want_err = None
    want_n = n_complete
    if bad is not None and n_complete == bad and p >= bad_off + 16:
        want_err = ("parse-error", bad)
    elif eof:
        last = ends[n_complete - 1] if n_complete else 0
        want_err = ("incomplete", p - last if (p - last) < 16 or True else None)
    if delivered != msgs[:want_n]:
        if len(delivered) > want_n:
            disc = "truncated-or-extra-message"
        elif len(delivered) < want_n:
            disc = "message-missing"
        else:
            disc = "message-differs"
        out.append(("messages", disc, f"prefix {p} eof={eof}: delivered {len(delivered)} messages, datagram decoding yields {want_n}"))
    if want_err is None:
        if error is not None:
            out.append(("error", f"unexpected-{error[0]}", f"prefix {p} eof={eof}: reader raised {error}"))
    elif want_err[0] == "parse-error":
        if error != want_err:
            out.append(("error", "parse-error-expected", f"prefix {p}: header of message {bad} is rejected by datagram "
                        f"decoding; stream reader state: {error}"))
    else:
        if error is None or error[0] != "incomplete":
            out.append(("error", "incomplete-expected", f"prefix {p} with EOF: expected an incomplete-read error, got {error}"))
        elif p == (ends[n_complete - 1] if n_complete else 0) and error[1] not in (0, None):
            out.append(("error", "partial-at-boundary", f"EOF at a message boundary reported partial data {error}"))
    return out


def trickle_stream(name, stream, k, use_wrapper):
    """the stream arrives in chunks of k bytes (more than a thousand pieces for one payload), the reader running in
    between: same messages and same final state as for one chunk; cut short inside the trickled payload: the
    incomplete-read error"""
    ref = reference(stream)
    n = len(stream)
    viols = []
    key1, delivered1, error1 = execute(stream, [n], False, use_wrapper)
    cuts = sorted(set(range(k, n + 1, k)) | {n})
    key, delivered, error = execute(stream, cuts, False, use_wrapper)
    for v in judge(stream, ref, n, False, delivered, error):
        viols.append(v + (dict(stream=name, cuts=f"every {k} bytes", eof=False),))
    if key != key1 and not viols:
        viols.append(("segmentation", "state-depends-on-chunking", f"{k}-byte chunks end in a different reader state than a single chunk",
                      dict(stream=name, cuts=f"every {k} bytes", eof=False)))
    p = ref[1][0] - 3 if ref[1] else n  # three bytes before the end of the first message
    cuts = sorted(set(range(k, p + 1, k)) | {p})
    key, delivered, error = execute(stream, cuts, True, use_wrapper)
    for v in judge(stream, ref, p, True, delivered, error):
        viols.append(v + (dict(stream=name, cuts=f"every {k} bytes up to {p}", eof=True),))
    return dict(stream=name, bytes=n, states=3, transitions=2 * len(cuts) + 1, positions=2, expected_states=3, viols=viols[:40], nviols=len(viols))


def explore_stream(args):
    name, stream, positions, use_wrapper = args
    if isinstance(positions, tuple) and positions and positions[0] == "trickle":
        return trickle_stream(name, stream, positions[1], use_wrapper)
    ref = reference(stream)
    n = len(stream)
    pos = sorted(set(positions) | {0, n}) if positions is not None else list(range(0, n + 1))
    viols = []
    states = set()
    transitions = 0
    direct = {}
    for p in pos:
        key, delivered, error = execute(stream, [p], False, use_wrapper)
        transitions += 1
        direct[p] = key
        states.add(key)
        for v in judge(stream, ref, p, False, delivered, error):
            viols.append(v + (dict(stream=name, cuts=[p], eof=False),))
        key2, delivered, error = execute(stream, [p], True, use_wrapper)
        transitions += 1
        states.add(key2)
        for v in judge(stream, ref, p, True, delivered, error):
            viols.append(v + (dict(stream=name, cuts=[p], eof=True),))
    for i, p in enumerate(pos):
        if p == 0:
            continue
        for q in pos[i + 1:]:
            key, delivered, error = execute(stream, [p, q], False, use_wrapper)
            transitions += 1
            if key != direct[q]:
                states.add(key)
                viols.append(("segmentation", "state-depends-on-chunking",
                              f"chunks [0:{p}) [{p}:{q}) end in a different reader state than the single chunk [0:{q})",
                              dict(stream=name, cuts=[p, q], eof=False)))
                for v in judge(stream, ref, q, False, delivered, error):
                    viols.append(v + (dict(stream=name, cuts=[p, q], eof=False),))
            if len(viols) > 40:
                break
    # byte-by-byte, as one more independent path
    if n <= 200:
        key, delivered, error = execute(stream, list(range(1, n + 1)), False, use_wrapper)
        transitions += n
        if key != direct[n]:
            viols.append(("segmentation", "state-depends-on-chunking", "1-byte chunks end in a different state",
                          dict(stream=name, cuts=list(range(1, n + 1)), eof=False)))
    return dict(stream=name, bytes=n, states=len(states), transitions=transitions, positions=len(pos),
                expected_states=2 * len(pos) - (1 if True else 0), viols=viols[:40], nviols=len(viols))


def streams(ctx):
    out = []
    lens = (0, 1, 2, 17)
    # all sequences of 0..3 messages over 4 payload lengths, all cut positions
    maxk = 3 if not ctx.thorough else 4
    for k in range(0, maxk + 1):
        for combo in itertools.product(lens, repeat=k):
            if k == 4 and ctx.thorough and sum(combo) > 40:
                continue
            s = b"".join(message(i, pl) for i, pl in enumerate(combo))
            out.append((f"seq{combo}", s, None, (len(out) % 2) == 1))
    # one corrupted header field in each message position
    base = (1, 17, 0)
    for posn in range(3):
        for field, vals in (("protover", (0, 2)), ("mtype", (3, 0x7F)), ("code", (11, 0xFF)), ("length", tuple(range(8)) + (65499, 65500, 65535, 0x10000, 0x01000000, 0x7FFFFFFF, 0x80000000, 0xFFFFFFFF))):
            for val in vals:
                s = b"".join(message(i, pl, (field, val) if i == posn else None) for i, pl in enumerate(base))
                out.append((f"corrupt-msg{posn}-{field}={val}", s, None, False))
    # every value of the protocol version, message type and return code bytes of the middle message (payload 17 bytes),
    # cut at a few positions around that message: both decoders must draw the same line between valid and invalid
    m0, m2 = message(0, 1), message(2, 0)
    for field in ("protover", "mtype", "code"):
        for val in range(256):
            s = m0 + message(1, 17, (field, val)) + m2
            a = len(m0)
            out.append((f"sweep-{field}={val}", s, sorted({0, a, a + 12, a + 14, a + 15, a + 16, a + 20, a + 33, len(s)}), False))
    # the same header twice (or three times) in a row, a later copy with one corrupted field: a reader that
    # remembers the previous header must still validate the next one
    for nrep in (2, 3):
        for field, vals in (("protover", (0,)), ("mtype", (3,)), ("code", (11,)), ("length", (0, 7))):
            for val in vals:
                s = b"".join(message(5, 2, (field, val) if i == nrep - 1 else None) for i in range(nrep))
                out.append((f"repeat{nrep}-{field}={val}", s, None, False))
    # boundary header values (smallest / largest ids, the SD and "magic cookie" ids, empty payload) between two
    # ordinary messages: what a message says must not change how the stream is framed
    for service, method in itertools.product((0, 0xFFFF), (0, 0x8000, 0x8100, 0xFFFF)):
        for (client, session, mtype), plen in itertools.product(((0xDEAD, 0xBEEF, 0x01), (0xDEAD, 0xBEEF, 0x02), (0, 0, 0x00),
                                                                 (0xFFFF, 0xFFFF, 0x80)), (0, 1)):
            mid = refcodec.enc_someip(service, method, client, session, 1, mtype, 0, payload(plen, 9))
            for where in ("middle", "last"):
                parts = [message(1, 1), mid] + ([message(2, 0)] if where == "middle" else [])
                out.append((f"boundary-{service:#x}-{method:#x}-{client:#x}-{mtype:#x}-{plen}-{where}", b"".join(parts), None,
                            (len(out) % 2) == 1))
    # every payload length of 0..4096 bytes (thorough: ..9000): one message of that length followed by a short one,
    # cut at the header end, in the middle of the payload, at the message boundary
    for plen in range(0, 9001 if ctx.thorough else 4097):
        st = message(3, plen) + message(1, 1)
        out.append((f"len{plen}", st, sorted({0, 16, 16 + plen // 2, 16 + plen, len(st)}), False))
    # payloads around the multiples of 64 KiB (a reader that fetches a large payload in pieces), followed by a short message
    for k in ((1, 2, 3) if not ctx.thorough else (1, 2, 3, 4, 8, 16)):
        for plen in (k * 65536 - 1, k * 65536, k * 65536 + 1):
            st = message(3, plen) + message(1, 1)
            out.append((f"len{plen}", st, sorted({0, 16, 16 + 65535, 16 + 65536, 16 + plen - 65536, 16 + plen, len(st)}), False))
    # a payload that trickles in: 1200 bytes byte by byte, 4096 bytes in chunks of 2 and 3 bytes (1365..2048 pieces of one
    # payload, the reader woken for each)
    for plen, k in ((1200, 1), (4096, 2), (4096, 3)) + (((9000, 1), (65536, 16)) if ctx.thorough else ()):
        out.append((f"trickle-{plen}-{k}", message(3, plen) + message(1, 1), ("trickle", k), False))
    # long streams: cut positions restricted to a window around every boundary plus a 509-byte grid
    win = 17 if ctx.thorough else 3
    longs = [(255, 256, 4095, 4096, 0, 1, 255, 17)] if not ctx.thorough else [
        (255, 256, 4095, 4096, 0, 1, 255, 17), (4096, 4096, 17, 0, 0, 256, 4095, 255)]
    for combo in longs:
        s = b"".join(message(i, pl) for i, pl in enumerate(combo))
        cuts = set(range(0, len(s) + 1, 509))
        off = 0
        for pl in combo:
            for b in (off, off + 16, off + 16 + pl):
                cuts.update(range(max(0, b - win), min(len(s), b + win) + 1))
            off += 16 + pl
        out.append((f"long{combo}", s, sorted(cuts), False))
    return out


def check(ctx):
    jobs = streams(ctx)
    res = core.pmap(explore_stream, jobs, 1)
    viols = []
    for r in res:
        for clause, disc, detail, case in r.pop("viols"):
            viols.append(core.Violation(ctx.prop, clause, disc, case, detail=f"{r['stream']}: {detail}"))
    samples = [dict(stream=jobs[7][0], cuts=[5, 21], eof=False), dict(stream=jobs[-1][0], cuts="boundary windows + 509-byte grid"),
               dict(stream="corrupt-msg1-length=7", cuts=[33], eof=False)]
    cov = dict(
        states=sum(r["states"] for r in res), transitions=sum(r["transitions"] for r in res),
        traces_validated_against_impl=sum(r["transitions"] for r in res), samples=samples, streams=len(jobs),
        all_states_path_independent=all(r["states"] <= 2 * r["positions"] for r in res),
        largest=[r for r in res if r["stream"].startswith("long")], exhaustive=True,
        note="states = distinct canonical (reader, task, delivered) snapshots; for a segmentation-independent reader "
             "this equals the number of (prefix, EOF) pairs",
    )
    return core.finish(ctx, "model_checking", cov, viols, [
        "induction over chunk count: every two-chunk path into q lands in the single-chunk state of q, and the canonical "
        "state is a complete state vector of reader + reading task",
        "long streams: cut positions restricted to windows around header/payload boundaries and a 509-byte grid",
        "the reference for 'datagram decoding' is the library's own SOMEIPHeader.parse loop (its layout is C01's job)",
    ])


def replay(ctx, body):
    c = body["case"]
    jobs = {j[0]: j for j in streams(ctx)}
    if c["stream"] not in jobs:
        ctx2 = core.Ctx(ctx.prop, "thorough", ctx.seed)
        jobs = {j[0]: j for j in streams(ctx2)}
    name, stream, pos_, wrap = jobs[c["stream"]]
    if isinstance(c["cuts"], str):
        r = trickle_stream(name, stream, pos_[1], wrap)
        for x in r["viols"]:
            print("FAILS:", x[:3])
        return 1 if r["viols"] else 0
    key, delivered, error = execute(stream, list(c["cuts"]), bool(c["eof"]), wrap)
    key2, _, _ = execute(stream, list(c["cuts"]), bool(c["eof"]), wrap)
    print("stream", name, len(stream), "bytes; cuts", c["cuts"], "eof", c["eof"])
    print("delivered", len(delivered), "error", error)
    if key != key2:
        print("HARNESS-ERROR: nondeterministic replay")
        return 2
    ref = reference(stream)
    v = judge(stream, ref, c["cuts"][-1], bool(c["eof"]), delivered, error)
    if len(c["cuts"]) > 1:
        kd, _, _ = execute(stream, [c["cuts"][-1]], bool(c["eof"]), wrap)
        if kd != key:
            v.append(("segmentation", "state-depends-on-chunking", "differs from the single-chunk state"))
    for x in v:
        print("FAILS:", x)
    return 1 if v else 0
