"""C13 - FindService is sent only for watched services not yet found, bounded in number (E2).

Real code driven: ServiceDiscover.start / send_find_services inside a real protocol object; offers
and stop-offers are delivered through datagram_received at every discovered round / expiry
instant (-eps, pre, post, +eps)."""
from __future__ import annotations

import functools
import itertools

import someip.config as cfg_

from .. import core, e2, refcodec
from ..world import MCAST, Choice, ClientRec, RandomSeam, make_sd, timings

SRC = ("192.0.2.81", 30490)
W = (0xFFFF, 0xFF, 0xFFFFFFFF)


def sids(seed):
    s = 0x6000 + seed % 0x9000
    return s, s + 7


def filters(s, s2):
    return [(s, 0xFFFF, 0xFF, 0xFFFFFFFF), (s, 1, 0xFF, 0xFFFFFFFF), (s, 1, 1, 0), (s2, 0xFFFF, 0xFF, 0xFFFFFFFF),
            (s2, 2, 0xFF, 0xFFFFFFFF),
            # a wildcard in an earlier field and a concrete value in a later one
            (s, 0xFFFF, 2, 0xFFFFFFFF)]


def services(s, s2):
    return [(s, 1, 1, 0), (s, 2, 1, 0), (s2, 2, 1, 0), (s, 1, 2, 1)]


def fmatch(f, svc):
    return f[0] == svc[0] and all(f[k] == W[k - 1] or f[k] == svc[k] for k in (1, 2, 3))


class Sys(e2.DevSys):
    def setup(self, cfg):
        self.s, self.s2 = cfg["sids"]
        lo, hi = cfg["window"]
        self.d = lo + (hi - lo) * cfg["frac"]
        self.seam = RandomSeam(Choice(default=cfg["frac"]))
        self.seam.__enter__()
        self.t = timings(INITIAL_DELAY_MIN=lo, INITIAL_DELAY_MAX=hi, REPETITIONS_MAX=cfg["reps"],
                         REPETITIONS_BASE_DELAY=cfg["base"], FIND_TTL=cfg["find_ttl"])
        self.prot = make_sd(self.loop, self.t)
        self.watched = [filters(self.s, self.s2)[i] for i in cfg["watched"]]
        self.svcs = services(self.s, self.s2)
        self.log = []
        for n, f in enumerate(self.watched):
            # stale process history: the same filter was turned into find entries with other TTLs before
            for ttl in (1, 3, cfg["find_ttl"] + 1):
                cfg_.Service(*f, eventgroups=frozenset({9})).create_find_entry(ttl)
            self.prot.discovery.watch_service(cfg_.Service(*f), ClientRec(f"L{n}", self.log, self.loop))
        self.rounds = [self.d]
        for i in range(cfg["reps"]):
            self.rounds.append(self.rounds[-1] + cfg["base"] * (2 ** i))
        self.place_until = self.rounds[-1] + 0.5
        self.tail = 0.5
        self.session = 0
        self.events = []  # (time, pos, kind, svc index, ttl)
        self.cur = None
        self.prot.discovery.start()

    def close(self):
        self.seam.__exit__(None, None, None)
        super().close()

    def before_action(self, dev):
        self.cur = dev

    def actions(self):
        acts = []
        if self.cfg.get("late_watch"):
            for fi in range(5):
                if fi not in self.cfg["watched"] and fi not in [e[3] for e in self.events if e[2] == "watch"]:
                    acts.append(("watch", fi))
        for i in range(len(self.svcs)):
            for ttl in self.cfg["offer_ttls"]:
                acts.append(("offer", i, ttl))
            acts.append(("stopoffer", i))
        acts.append(("offer", 0, 0xFFFFFF))  # an offer with the infinite TTL (a later finite one replaces it)
        # one SD message with two entries for the same service: the last one counts
        acts += [("offer+stop", 0), ("stop+offer", 0, 3)]
        if not any(e[2] == "stop" for e in self.events):
            acts.append(("stop", -1))  # stop() of the discovery part: nothing is sent any more
        if sum(1 for e in self.events if e[2] == "restart") < 2 and not any(e[2] == "stop" for e in self.events):
            acts.append(("restart", -1))  # stop() and start() of the discovery part: the schedule begins again
        if not any(e[2] == "connlost" for e in self.events):
            acts.append(("connlost", -1))  # the connection is reported lost: what was learnt is forgotten, the schedule goes on
        return acts

    def do(self, act):
        if act[0] == "connlost":
            self.events.append((self.loop.time(), self.cur[1], "connlost", -1, 0))
            self.prot.discovery.connection_lost(None)
            return
        if act[0] == "stop":
            now = self.loop.time()
            self.events.append((now, self.cur[1], "stop", -1, 0))
            self.prot.discovery.stop()
            r = self.loop._clock_resolution
            self.rounds = [T for T in self.rounds if T < now - r]
            return
        if act[0] == "restart":
            now = self.loop.time()
            self.events.append((now, self.cur[1], "restart", -1, 0))
            self.prot.discovery.stop()
            self.prot.discovery.start()
            # the old schedule ends here (a round whose timer is due in this very iteration is cancelled with its
            # task, before or after the timer fired), a new one begins
            r = self.loop._clock_resolution
            self.rounds = [T for T in self.rounds if T < now - r]
            self.restart_indexes = {i for i in getattr(self, "restart_indexes", set()) if i < len(self.rounds)} | {len(self.rounds)}
            nxt = now + self.d
            self.rounds.append(nxt)
            for i in range(self.cfg["reps"]):
                nxt += self.cfg["base"] * (2 ** i)
                self.rounds.append(nxt)
            self.tail = max(self.tail, self.rounds[-1] - now + 0.5)
            return
        if act[0] == "watch":
            # a filter added while the find task is running: it is searched from the next round on
            f = filters(self.s, self.s2)[act[1]]
            self.events.append((self.loop.time(), self.cur[1], "watch", act[1], 0))
            self.prot.discovery.watch_service(cfg_.Service(*f), ClientRec(f"LW{act[1]}", self.log, self.loop))
            return
        if act[0] in ("offer+stop", "stop+offer"):
            self.session += 1
            svc = self.svcs[act[1]]
            ttls = (3, 0) if act[0] == "offer+stop" else (0, act[2])
            for ttl in ttls:
                self.events.append((self.loop.time(), self.cur[1], "offer" if ttl else "stopoffer", act[1], ttl))
            data = refcodec.sd_message(self.session, [("offer", svc[0], svc[1], svc[2], ttl, svc[3], (), ()) for ttl in ttls])
            self.prot.datagram_received(data, SRC, True)
            return
        self.session += 1
        svc = self.svcs[act[1]]
        ttl = act[2] if act[0] == "offer" else 0
        self.events.append((self.loop.time(), self.cur[1], act[0], act[1], ttl))
        data = refcodec.sd_message(self.session, [("offer", svc[0], svc[1], svc[2], ttl, svc[3], (), ())])
        self.prot.datagram_received(data, SRC, True)

    def live_at(self, T):
        """services with a live stored offer when the round at T builds its entries.  Offers are handled
        on arrival and the round's task resumes one iteration after its timer fired, so an offer
        delivered in the iteration of the round's timer counts, before (pre) or after (post) the timer;
        an expiry at exactly T has already happened."""
        r = self.loop._clock_resolution
        live = {}
        watched = list(self.watched)
        for t, pos, kind, i, ttl in self.events:
            before = t < T - r or abs(t - T) < r
            if not before:
                continue
            if kind in ("restart", "stop"):
                continue
            if kind == "connlost":
                live.clear()
                continue
            if kind == "watch":
                watched.append(filters(self.s, self.s2)[i])
                continue
            svc = self.svcs[i]
            if not any(fmatch(f, svc) for f in watched):
                continue  # offers nobody watches (yet) are not stored
            if kind == "stopoffer":
                live.pop(i, None)
            else:
                live[i] = None if ttl == 0xFFFFFF else t + ttl
        return {i for i, exp in live.items() if exp is None or exp > T + r}

    def judge(self):
        if self.exceptions:
            return
        horizon = self.loop.time()
        want = []
        ended = False  # the current task has found everything at one of its rounds and ended
        for n, T in enumerate(self.rounds):
            if T > horizon:
                break
            if n in getattr(self, "restart_indexes", ()):
                ended = False  # a fresh task
            if ended:
                continue
            live = self.live_at(T)
            r_ = self.loop._clock_resolution
            watched = list(self.watched) + [filters(self.s, self.s2)[e[3]] for e in self.events
                                            if e[2] == "watch" and (e[0] < T - r_ or abs(e[0] - T) < r_)]
            ents = sorted(f for f in watched if not any(fmatch(f, self.svcs[i]) for i in live))
            if not ents:
                ended = True  # everything found at a round instant: the task ends (until a restart)
                continue
            want.append((T, ents))
        got = []
        for t, it, data, addr in self.prot.transport.sent:
            try:
                msgs = refcodec.dec_sd_datagram(data)
            except refcodec.RefError as e:
                self.viol("wire", "undecodable", f"datagram at {t}: {e}")
                continue
            for m in msgs:
                finds = [e for e in m["entries"] if e[0] == "find"]
                if not finds:
                    continue
                if addr != MCAST:
                    self.viol("find", "destination", f"FindService sent to {addr} at {t}")
                for e in finds:
                    if e[4] != self.cfg["find_ttl"] or e[6] or e[7]:
                        self.viol("find", "ttl-or-options", f"FindService entry {e} at {t}")
                got.append((t, sorted((e[1], e[2], e[3], e[5]) for e in finds)))
        if got != want:
            if len(got) > len(want):
                disc = "extra-round"
            elif len(got) < len(want):
                disc = "missing-round"
            elif [g[0] for g in got] != [w[0] for w in want]:
                disc = "time"
            else:
                j = next(i for i in range(len(got)) if got[i] != want[i])
                disc = "entry-for-found-service" if len(got[j][1]) > len(want[j][1]) else (
                    "entry-missing" if len(got[j][1]) < len(want[j][1]) else "entry-fields")
            self.viol("rounds", disc, f"FindService rounds on the wire {got}, expected {want}; events {self.events}")

    def outcome(self):
        return len(self.prot.transport.sent)


def cfgs(ctx):
    s, s2 = sids(ctx.seed)
    out = []
    maxsub = 4 if ctx.thorough else 3
    subsets = [c for k in range(1, maxsub + 1) for c in itertools.combinations(range(5), k)]
    subsets += [(5,), (0, 5), (1, 5), (2, 5), (0, 1, 5)]
    reps_set = (0, 1, 2, 3, 4) if ctx.thorough else (0, 1, 3)
    for (window, frac), reps, base, watched in itertools.product(
            (((0.0, 0.0), 0.0), ((0.125, 0.25), 0.0), ((0.125, 0.25), 1.0)), reps_set, (0.125, 1.0), subsets):
        if base == 1.0 and reps > 3:
            continue
        out.append(dict(sids=(s, s2), window=window, frac=frac, reps=reps, base=base, watched=watched,
                        find_ttl=7 + ctx.seed % 5, offer_ttls=(1, 3),
                        late_watch=(len(watched) == 1 and reps == 3 and frac == 0.0)))
    return out


def reoffer_triple(cfg, devs, p, k):
    """offer(i, ttl 1), stop-offer(i), offer(i, ttl 3) within one second: a timer that survives the stop-offer
    would remove the second offer"""
    return (k == 3 and cfg["base"] == 1.0 and cfg["reps"] == 3 and cfg["frac"] == 0.0 and cfg["window"] != (0.0, 0.0)
            and len(cfg["watched"]) == 1 and devs[0][2] == ("offer", devs[0][2][1], 1)
            and devs[1][2] == ("stopoffer", devs[0][2][1]) and p[2] == ("offer", devs[0][2][1], 3)
            and p[0] - devs[0][0] < 1.0 and devs[0][1] == devs[1][1] == p[1] == "pre")


K1_ONLY = ("offer+stop", "stop+offer", "restart", "stop", "connlost")


def restrict(thorough, cfg, devs, p, k):
    if k <= 1:
        return True
    if k == 2 and devs[0][2][0] == "restart" and p[2][0] in ("stop", "restart") and len(cfg["watched"]) == 1 \
            and cfg["reps"] in (1, 3) and cfg["frac"] == 0.0:
        return True  # a restart, then a stop or another restart: the first restart must not leave anything behind
    if k == 2 and devs[0][2][0] == "offer" and p[2][0] == "restart" and len(cfg["watched"]) <= 2 \
            and cfg["reps"] in (1, 3) and cfg["frac"] == 0.0 and (thorough or p[1] == "pre"):
        return True  # an offer, then a restart: what was learnt before the stop is still known afterwards
    if k == 2 and devs[0][2][0] == "connlost" and p[2][0] == "offer" and len(cfg["watched"]) <= 2 \
            and cfg["reps"] in (1, 3) and cfg["frac"] == 0.0 and (thorough or p[1] == "pre"):
        return True  # the connection is lost in the middle of a phase, then an offer: it is found by the rounds that follow
    if not thorough and (p[2][0] in K1_ONLY or any(d[2][0] in K1_ONLY for d in devs)):
        return False  # quick tier: two-entry messages and restarts as single disturbances only
    if reoffer_triple(cfg, devs, p, k):
        return True
    if k == 2 and cfg["base"] == 1.0 and cfg["reps"] == 3 and cfg["frac"] == 0.0 and cfg["window"] != (0.0, 0.0) \
            and len(cfg["watched"]) == 1 and devs[0][2][0] == "offer" and devs[0][2][2] == 1 \
            and p[2] == ("stopoffer", devs[0][2][1]) and p[0] - devs[0][0] < 1.0 and devs[0][1] == p[1] == "pre":
        return True
    if k == 2:
        if thorough:
            return len(cfg["watched"]) <= 3 and cfg["reps"] in (1, 3)
        return cfg["base"] == 1.0 and cfg["reps"] == 3 and cfg["frac"] == 0.0 and cfg["window"] != (0.0, 0.0) \
            and len(cfg["watched"]) <= 2
    if k == 3:
        return thorough and cfg["base"] == 1.0 and cfg["reps"] == 3 and cfg["frac"] == 0.0 \
            and cfg["window"] != (0.0, 0.0) and len(cfg["watched"]) == 1 and p[2][0] == "stopoffer"
    return False


def check(ctx):
    allc = cfgs(ctx)
    res, viols = e2.search(ctx, Sys, allc, 3, restrict=functools.partial(restrict, ctx.thorough))
    samples = core.Samples()
    samples.add(dict(cfg=allc[0], devs=[]), "default schedule")
    samples.add(dict(cfg=allc[-1], devs=[[1.25, "pre", ["offer", 0, 1]], [2.25, "post", ["offer", 2, 3]]]),
                "offer that expires again before the next round, second offer in the iteration of a round")
    cov = dict(
        states=res.runs, transitions=res.runs, traces_validated_against_impl=res.runs, samples=samples.out(),
        runs=res.runs, runs_by_deviation_count=res.by_level, deviation_bound_completed=res.completed_k,
        configurations=len(allc), placements_discovered=res.instants, distinct_outcomes=len(res.outcomes),
        caps_hit=[res.capped] if res.capped else [], exhaustive=res.capped is None,
        note="every run goes to the horizon after the last round; k=2 layer restricted as stated in restrict()",
    )
    return core.finish(ctx, "model_checking", cov, viols, [
        "'as soon as every watched service is found no further FindService is sent' is evaluated at round instants "
        "(an offer that is found and expires again between two rounds legitimately reappears)",
        "offer TTLs are whole seconds on the wire; expiry between rounds needs the 1 s base delay configurations",
    ])


def replay(ctx, body):
    return e2.replay_case(Sys, body)
