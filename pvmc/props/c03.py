"""C03 - malformed or foreign input is rejected cleanly and changes nothing (E3, twin runs).

Oracle A (decoders): every parse() / read() either returns (value, true suffix of the input) or
raises the library's ParseError (asyncio.IncompleteReadError for the stream reader), or - solely
from inside the configuration-option text decoder - UnicodeDecodeError.
Oracle B (live endpoints): the datagram is delivered to a real ServiceDiscoveryProtocol (fresh and
warmed-up by a prefix history) and to a real SimpleService, over unicast and multicast: nothing
escapes datagram_received, the loop's exception log stays empty, and the state after the datagram
equals the state after its twin - the datagram reduced to the SD messages the endpoint may act on
(canonical snapshot, listener callbacks and transmissions)."""
from __future__ import annotations

import asyncio
import traceback

import someip.config as cfg_
import someip.header as hdr
import someip.sd as sd
import someip.service as svc

from .. import canon, core, corpus, refcodec
from ..vloop import FakeTransport, VLoop
from ..world import Choice, ClientRec, RandomSeam, ServerRec, install_log_capture, make_sd, timings

SENDER = ("192.0.2.9", 30490)


# -- oracle A ------------------------------------------------------------------------------------

def _unicode_ok(exc):
    tb = traceback.extract_tb(exc.__traceback__)
    return bool(tb) and tb[-1].name == "parse_option" and tb[-1].filename.endswith("header.py") and \
        "decode" in (tb[-1].line or "")


def decoder_outcome(fn, data, reader=False):
    """-> (class, violation or None)"""
    try:
        r = fn(data)
    except hdr.ParseError as e:
        return "parse-error:" + type(e).__name__, None
    except asyncio.IncompleteReadError:
        if reader:
            return "incomplete-read", None
        return "other", ("decoder", "asyncio.IncompleteReadError", "asyncio.IncompleteReadError from a byte-string decoder")
    except UnicodeDecodeError as e:
        if _unicode_ok(e):
            return "unicode-in-config-text", None
        return "other", ("decoder", "UnicodeDecodeError-elsewhere", "UnicodeDecodeError raised outside the configuration text decoder")
    except Exception as e:  # noqa: BLE001
        return "other", ("decoder", type(e).__name__, f"{type(e).__name__}: {e}")
    if reader:
        return "value", None
    try:
        value, rest = r
    except Exception:  # noqa: BLE001
        return "other", ("decoder", "bad-return", f"returned {type(r).__name__}")
    rest = bytes(rest)
    if len(rest) > len(data) or bytes(data[len(data) - len(rest):]) != rest:
        return "other", ("decoder", "rest-not-a-suffix", f"unconsumed rest ({len(rest)} bytes) is not a suffix of the input")
    return "value", None


def read_stream(data):
    loop = VLoop().install()
    try:
        reader = asyncio.StreamReader(loop=loop)
        reader.feed_data(data)
        reader.feed_eof()
        box = {}

        async def go():
            try:
                box["v"] = await hdr.SOMEIPHeader.read(reader)
            except BaseException as e:  # noqa: BLE001
                box["e"] = e

        loop.create_task(go())
        loop.settle()
        if "e" in box:
            raise box["e"]
        if "v" not in box:
            raise RuntimeError("stream reader did not terminate")
        return box["v"]
    finally:
        loop.dispose()


def oracle_a(data, offsets):
    """offsets: where the SD payload / entries / options start in the seed (None for raw strings)"""
    out = []
    classes = []
    calls = [("SOMEIPHeader.parse", hdr.SOMEIPHeader.parse, data, False),
             ("SOMEIPHeader.read", read_stream, data, True)]
    sdoff, eoff, ooff = offsets
    for off in {0, sdoff}:
        calls.append((f"SOMEIPSDHeader.parse@{off}", hdr.SOMEIPSDHeader.parse, data[off:], False))
    for off in {0, eoff}:
        for n in (0, 1, 255):
            calls.append((f"SOMEIPSDEntry.parse@{off},n={n}", lambda b, n=n: hdr.SOMEIPSDEntry.parse(b, n), data[off:], False))
    for off in {0, ooff}:
        calls.append((f"SOMEIPSDOption.parse@{off}", hdr.SOMEIPSDOption.parse, data[off:], False))
    for name, fn, d, rd in calls:
        cls, v = decoder_outcome(fn, bytes(d), rd)
        classes.append(cls)
        if v:
            out.append(v + (name,))
    return out, classes


# -- oracle B ------------------------------------------------------------------------------------

class World:
    def _feed(self, data, addr, multicast):
        """a datagram of the world's history (valid, built by the independent encoder): the receive path must not raise
        for it either"""
        try:
            self.prot.datagram_received(data, addr, multicast)
        except Exception as e:  # noqa: BLE001
            self.prelude_exc = self.prelude_exc or type(e).__name__

    def __init__(self, warm, sid, simple=False, collecting=False, started=True):
        self.prelude_exc = None
        self.simple = simple
        self.loop = VLoop().install()
        self.seam = RandomSeam(Choice())
        self.seam.__enter__()
        self.cap = install_log_capture()
        self.prot = make_sd(self.loop, timings(CYCLIC_OFFER_DELAY=1, REPETITIONS_MAX=0,
                                               SEND_COLLECTION_TIMEOUT=2 ** -7 if collecting else 0))
        self.log = []
        self.cl = ClientRec("L", self.log, self.loop)
        self.sl = ServerRec("S", self.log, self.loop)
        self.prot.discovery.watch_all_services(self.cl)
        # an auto-subscribing watcher with a concrete instance id and major version next to the catch-all one
        self.prot.discovery.find_subscribe_eventgroup(
            cfg_.Eventgroup(sid, 1, 1, 5, ("192.0.2.1", 3005), hdr.L4Protocols.UDP))
        if simple:
            # the library's own SimpleService is the server-side listener (announced through this endpoint)
            class S(svc.SimpleService):
                service_id = sid
                version_major = 1
                version_minor = 0

            self.service = S(instance_id=1)
            self.service.transport = FakeTransport(self.loop, sockname=("192.0.2.1", 30501))
            self.service.register_eventgroup(svc.SimpleEventgroup(self.service, id=5))
            self.service.start_announce(self.prot.announcer)
            self.inst = self.prot.announcer.announcing_services[0]
        else:
            self.inst = sd.ServiceInstance(cfg_.Service(sid, 1, 1, 0, eventgroups=frozenset({5})), self.sl,
                                           self.prot.announcer, self.prot.timings)
            self.prot.announcer.announce_service(self.inst)
        if started:
            self.prot.start()
        # else: the endpoint exists and receives, its instance is announced, start() has not been called yet
        self.loop.run_until(0.25)
        if warm and not started:
            # the sender is known with a high session id on both channels: every seed is reboot evidence
            for mc in (True, False):
                self._feed(
                    refcodec.sd_message(0x7000, [("offer", sid + 1, 1, 1, 3, 0, (refcodec.v4("192.0.2.9", 30501),), ())]), SENDER, mc)
            self.loop.run_until(0.5)
        elif warm == 2:
            # what the seeds refresh is already known with the infinite TTL (one message per channel, session id 1: the
            # seeds' higher ids are no reboot evidence): a finite entry then replaces an infinite one
            v4 = refcodec.v4("192.0.2.9", 30501)
            cfgo = ("config", (("foo", "bar"), ("k", None), ("a", "b=c")))
            offers = [("offer", sid + 1, 1, 1, 3, 0, (v4,), ()), ("offer", sid, 1, 1, 0xFFFFFF, 0, (v4,), ())]
            subs = [("subscribe", sid, 1, 1, 0xFFFFFF, 5, (v4,), ()), ("subscribe", sid, 1, 1, 0xFFFFFF, (1 << 16) | 5, (v4,), (cfgo,))]
            self._feed(refcodec.sd_message(1, offers), SENDER, True)
            self._feed(refcodec.sd_message(1, offers + subs), SENDER, False)
            self.loop.run_until(0.5)
        elif warm:
            v4 = refcodec.v4("192.0.2.9", 30501)
            for mc, sess in ((True, 1), (False, 1)):
                self._feed(
                    refcodec.sd_message(sess, [("offer", sid + 1, 1, 1, 3, 0, (v4,), ())]), SENDER, mc)
            self._feed(
                refcodec.sd_message(2, [("subscribe", sid, 1, 1, 3, 5, (v4,), ())]), SENDER, False)
            self.loop.run_until(0.5)
        self.prot.transport.sent.clear()
        self.log.clear()
        if collecting:
            # an answer to this sender is being collected; the datagram under test arrives at the very instant the
            # collection period ends, before the loop has run the period's timer
            # (the queue for this sender holds an Offer - the answer to its FindService - and a SubscribeAck)
            self._feed(
                refcodec.sd_message(3, [("find", sid, 0xFFFF, 0xFF, 3, 0xFFFFFFFF, (), ())]), SENDER, False)
            self.loop.iterate()
            self._feed(
                refcodec.sd_message(4, [("subscribe", sid, 1, 1, 3, 5, (refcodec.v4("192.0.2.9", 30501),), ())]), SENDER, False)
            self.loop.advance(2 ** -7)

    def deliver(self, data, multicast):
        exc = None
        try:
            self.prot.datagram_received(data, SENDER, multicast)
        except Exception as e:  # noqa: BLE001
            exc = f"{type(e).__name__}"
        self.loop.run_until(self.loop.time() + 0.125)
        return exc

    def observe(self):
        roots = [self.prot, self.inst, self.cl, self.sl]
        sent = tuple((t, d, a) for t, it, d, a in self.prot.transport.sent)
        if self.simple:
            roots.append(self.service)
            sent += tuple((t, d, a) for t, it, d, a in self.service.transport.sent)
        key = canon.state_key(self.loop, roots)
        cbs = tuple((x[2], x[3], repr(x[4]), x[5]) for x in self.log)
        return key, cbs, sent

    def close(self):
        self.seam.__exit__(None, None, None)
        self.loop.dispose()


def twin_of(data):
    """the datagram reduced to what a discovery endpoint may act on: the SOME/IP messages up to the
    first undecodable one, keeping only decodable SD notifications; those whose unicast flag is clear
    lose their entries.  'Decodable' needs the library's decoder *and* the independent decoder to
    accept the payload (they agree on all 337 k accepted inputs of C20's corpus): a payload only the
    library accepts - e.g. because its decoder remembers an earlier message - is 'undecodable', and
    acting on it shows up as a difference to the twin."""
    keep = []
    buf = data
    while buf:
        try:
            m, rest = hdr.SOMEIPHeader.parse(buf)
        except Exception:  # noqa: BLE001 - anything but ParseError is reported by oracle A
            break
        raw = buf[:len(buf) - len(rest)]
        buf = rest
        if (m.service_id, m.method_id, m.interface_version, m.return_code, m.message_type) != (
                0xFFFF, 0x8100, 1, hdr.SOMEIPReturnCode.E_OK, hdr.SOMEIPMessageType.NOTIFICATION):
            continue
        try:
            sdh, _ = hdr.SOMEIPSDHeader.parse(m.payload)
            sdh.resolve_options()
        except Exception:  # noqa: BLE001
            continue
        try:
            refcodec.dec_sd(m.payload)
        except refcodec.RefError:
            continue
        if not sdh.flag_unicast:
            flags = (0x80 if sdh.flag_reboot else 0) | sdh.flags_unknown
            raw = refcodec.enc_someip(0xFFFF, 0x8100, m.client_id, m.session_id, 1, 2, 0, refcodec.enc_sd(flags, [], []))
        keep.append(bytes(raw))
    return b"".join(keep)


_TWIN_CACHE = {}


def world_result(warm, sid, data, multicast, simple=False, collecting=False, started=True):
    w = World(warm, sid, simple, collecting, started)
    try:
        if w.prelude_exc:
            return w.prelude_exc + "-in-the-history-of-the-world", w.observe(), [], []
        if data:
            exc = w.deliver(data, multicast)
        else:
            exc = None
            w.loop.run_until(w.loop.time() + 0.125)  # same virtual duration as a delivery
        obs = w.observe()
        loopexc = w.loop.collect_exceptions()
        swallowed = list(w.cap.records)
        return exc, obs, loopexc, swallowed
    finally:
        w.close()


NOT_STARTED_SEEDS = ("sd-find", "sd-offer-v4", "sd-subscribe-cfg", "sd-unicast-flag-clear", "sd-stop-subscribe", "two-messages")


INFINITE_SEEDS = ("sd-offer-v4", "sd-subscribe-cfg", "sd-stopoffer", "sd-stop-subscribe")


def oracle_b(data, sid, with_simple=False, with_not_started=False, light=False, with_infinite=False):
    out = []
    tw = twin_of(data)
    combos = [(warm, mc, False, False, True) for warm in (False, True) for mc in (False, True)]
    if light:
        combos = [c for c in combos if not c[1]]  # unicast only (the long two-message seed)
    if with_simple:
        combos.append((True, False, True, False, True))
        combos.append((True, False, False, True, True))
    if with_not_started:
        combos.append((True, False, False, False, False))
    if with_infinite:
        combos += [(2, False, False, False, True), (2, True, False, False, True)]
    for warm, mc, simple, collecting, started in combos:
        if True:
            exc, obs, loopexc, swallowed = world_result(warm, sid, data, mc, simple, collecting, started)
            where = f"{('warm (infinite entries known)' if warm == 2 else 'warm') if warm else 'fresh'} discovery endpoint{' with a SimpleService listener' if simple else ''}" \
                    f"{'' if started else ' whose announced instance has not been started yet'}" \
                    f"{' at the end of a send-collection period for the sender' if collecting else ''}, " \
                    f"{'multicast' if mc else 'unicast'}"
            if exc:
                out.append(("receive-path", f"raises-{exc}", f"{where}: {exc} escaped datagram_received"))
                continue
            if loopexc:
                out.append(("receive-path", f"loop-exception-{loopexc[0][2]}", f"{where}: {loopexc[:1]}"))
            if swallowed:
                out.append(("receive-path", f"swallowed-{swallowed[0][1]}", f"{where}: {swallowed[:1]}"))
            k = (warm, mc, simple, collecting, started, tw)
            if k not in _TWIN_CACHE:
                _TWIN_CACHE[k] = world_result(warm, sid, tw, mc, simple, collecting, started)[1]
            if obs != _TWIN_CACHE[k]:
                t = _TWIN_CACHE[k]
                what = "state" if obs[0] != t[0] else ("callbacks" if obs[1] != t[1] else "transmissions")
                out.append(("changes-nothing", what, f"{where}: {what} differ from the twin run without the rejected parts "
                            f"(callbacks {obs[1]} vs {t[1]}; {len(obs[2])} vs {len(t[2])} transmissions)"))
    return out


def service_endpoint(data):
    loop = VLoop().install()
    try:
        class S(svc.SimpleService):
            service_id = 0x1234
            version_major = 2
            version_minor = 0

        s = S(instance_id=1)
        s.register_method(1, lambda msg, addr: b"ok")
        s.transport = FakeTransport(loop, sockname=("192.0.2.1", 30501))
        out = []
        for mc in (False, True):
            try:
                s.datagram_received(data, SENDER, mc)
            except Exception as e:  # noqa: BLE001
                out.append(("receive-path", f"service-raises-{type(e).__name__}", f"service endpoint: {type(e).__name__}: {e}"))
        loop.settle()
        return out
    finally:
        loop.dispose()


def offsets_of(seed_bytes):
    sdoff = 16
    elen = refcodec.be(seed_bytes[20:24]) if len(seed_bytes) >= 24 else 0
    return sdoff, 24, min(24 + elen + 4, len(seed_bytes))


def part(args):
    kind, name, seed_bytes, lo, hi, sid, live = args
    viols = []
    n = 0
    classes = {}
    distinct = set()
    if kind == "short":
        gen = ((f"short:{d.hex()}", d) for d in list(corpus.short_strings(2))[lo:hi])
        offs = (0, 0, 0)
    elif kind == "seed2":
        import itertools as _it
        gen = _it.islice(corpus.mutations2(seed_bytes), lo, hi)
        offs = offsets_of(seed_bytes)
    else:
        gen = list(corpus.mutations(seed_bytes))[lo:hi]
        offs = offsets_of(seed_bytes)
    for mname, data in gen:
        if data in distinct:
            continue
        distinct.add(data)
        n += 1
        va, cls = oracle_a(data, offs)
        for c in cls:
            classes[c] = classes.get(c, 0) + 1
        for clause, disc, detail, which in va:
            viols.append((clause, disc, f"{which}: {detail}", dict(seed=name, mutation=mname, data=data, oracle="A")))
        if live:
            for clause, disc, detail in oracle_b(data, sid, name in ("sd-subscribe-cfg", "sd-stop-subscribe"),
                                                    name in NOT_STARTED_SEEDS, name == "two-sd-messages",
                                                    name in INFINITE_SEEDS) + service_endpoint(data):
                viols.append((clause, disc, detail, dict(seed=name, mutation=mname, data=data, oracle="B")))
    return n, viols[:200], classes, len(viols)


def check(ctx):
    sid = 0x1234 + (ctx.seed % 7) * 0x111
    jobs = []
    for name, data in corpus.seeds(ctx.seed):
        total = sum(1 for _ in corpus.mutations(data))
        step = 700
        for lo in range(0, total, step):
            jobs.append(("seed", name, data, lo, lo + step, sid, True))
    nshort = 1 + 256 + 65536
    for lo in range(0, nshort, 8192):
        # all strings of length 0..2: decoders on all of them, live endpoints on the 257 shortest
        jobs.append(("short", "short", b"", lo, lo + 8192, sid, lo == 0 and False))
    jobs.append(("short", "short", b"", 0, 257, sid, True))
    if ctx.thorough:
        # structural 2-mutations: decoders for every seed, live endpoints for the seed that carries an endpoint
        # and a configuration option
        for name, data in corpus.seeds(ctx.seed):
            st = len([p for p in corpus.structure(data)[0] if p < len(data)])
            total = (st * (st - 1) // 2) * 15 * 15
            for lo in range(0, total, 4000):
                jobs.append(("seed2", name, data, lo, lo + 4000, sid, name == "sd-subscribe-cfg"))
    out = core.pmap(part, jobs, 1)
    viols = []
    classes = {}
    n = 0
    for (kind, name, _, lo, hi, _, _), (cnt, vs, cl, nv) in zip(jobs, out):
        n += cnt
        for clause, disc, detail, case in vs:
            viols.append(core.Violation(ctx.prop, clause, disc, case, detail=detail))
        for k, v in cl.items():
            classes[k] = classes.get(k, 0) + v
    samples = core.Samples()
    sd0 = corpus.seeds(ctx.seed)[4]
    samples.add(dict(seed=sd0[0], mutation="nonascii@70=0xff", data=sd0[1]), "non-ASCII byte inside a configuration string")
    samples.add(dict(seed="sd-offer-v4", mutation="len32@20=0x7fffffff"), "entries length corrupted")
    nontrivial = sum(v for k, v in classes.items() if k == "value")
    cov = dict(
        evaluations=n, distinct_nontrivial=nontrivial, exhaustive=True,
        rule="every byte string of length 0..2 and the full 1-mutation neighbourhood of 14 seed datagrams (all "
             "truncations, every value on structural bytes, 15 values elsewhere, insertions, removal / duplication of "
             "structural regions, 32-bit length corruptions, non-ASCII bytes in configuration strings); each input goes "
             "to 11 decoder entry points and, over unicast and multicast, to a fresh and a warmed-up discovery endpoint "
             "and a service endpoint; distinct inputs by bytes; non-trivial = decoder calls that returned a value",
        samples=samples.out(), decoder_outcome_classes=classes, jobs=len(jobs),
    )
    return core.finish(ctx, "exploration", cov, viols, [
        "which messages of a datagram a discovery endpoint may act on is decided with the library's own decoders "
        "(twin construction); what they decode to is C02/C20's job",
        "UnicodeDecodeError is accepted only when the innermost frame is the configuration option's text decoder",
    ])


def replay(ctx, body):
    c = body["case"]
    data = c["data"]
    sid = 0x1234 + (ctx.seed % 7) * 0x111
    print("input:", data.hex())
    offs = (0, 0, 0)
    for name, sb in corpus.seeds(ctx.seed):
        if name == c.get("seed"):
            offs = offsets_of(sb)
    va, cls = oracle_a(data, offs)
    vb = oracle_b(data, sid, c.get("seed") in ("sd-subscribe-cfg", "sd-stop-subscribe"),
                  c.get("seed") in NOT_STARTED_SEEDS, c.get("seed") == "two-sd-messages",
                  c.get("seed") in INFINITE_SEEDS) + service_endpoint(data)
    print("decoder outcome classes:", cls)
    for v in va + vb:
        print("FAILS:", v)
    return 1 if (va or vb) else 0
