"""C16 - method calls get exactly one correctly correlated reply (engine E3).

Full product of header fields through SimpleService.datagram_received against the decision
table of the statement."""
from __future__ import annotations

import itertools

import someip.service as svc

from .. import core, refcodec
from ..vloop import FakeTransport, VLoop

E_UNKNOWN_SERVICE, E_UNKNOWN_METHOD, E_WRONG_IFACE, E_MALFORMED, E_WRONG_TYPE = 2, 3, 8, 9, 10
ADDR = ("192.0.2.77", 40000)


def make(loop, sid, major, with_subscriber=False):
    class S(svc.SimpleService):
        service_id = sid
        version_major = major
        version_minor = 3

        def __init__(self):
            super().__init__(instance_id=1)
            self.calls = []
            self.register_method(1, self.m1)
            self.register_method(2, self.m2)
            self.register_method(3, self.m3)

        def m1(self, msg, addr):
            self.calls.append((1, msg, addr))
            return b"R" + msg.payload[:4]

        def m2(self, msg, addr):
            self.calls.append((2, msg, addr))
            return None

        def m3(self, msg, addr):
            self.calls.append((3, msg, addr))
            raise svc.MalformedMessageError("no")

    s = S()
    s.transport = FakeTransport(loop, sockname=("192.0.2.1", 30501))

    class Backend:
        """method 4 is served by an object of its own; the service's method table is the only thing that refers to it"""

        def __init__(self, calls):
            self.calls = calls

        def handle(self, msg, addr):
            self.calls.append((4, msg, addr))
            return b"R" + msg.payload[:4]

    s.register_method(4, Backend(s.calls).handle)
    if with_subscriber:
        # the caller is also a subscriber of one of the service's eventgroups (its notifications go to the address the
        # calls come from)
        import ipaddress
        import someip.header as hdr
        import someip.sd as sd
        eg = svc.SimpleEventgroup(s, id=5)
        eg.values[1] = b"v"
        s.register_eventgroup(eg)
        ep = hdr.IPv4EndpointOption(ipaddress.IPv4Address(ADDR[0]), hdr.L4Protocols.UDP, ADDR[1])
        s.client_subscribed(sd.EventgroupSubscription(service_id=sid, instance_id=1, major_version=major, id=5, counter=0, ttl=3,
                                                      endpoints=frozenset([ep])), ("192.0.2.77", 30490))
        loop.settle()
        s.transport.sent.clear()
    return s


def expected(own_sid, own_major, f, multicast):
    """-> None | (mtype, code, payload) ; handler called?"""
    service, method, client, session, iface, mtype, code, pl = f
    if multicast:
        return None, None
    if service != own_sid:
        return (0x81, E_UNKNOWN_SERVICE, b""), None
    if iface != own_major:
        return (0x81, E_WRONG_IFACE, b""), None
    if method not in (1, 2, 3, 4):
        return (0x81, E_UNKNOWN_METHOD, b""), None
    if mtype not in (0x00, 0x01):
        return (0x81, E_WRONG_TYPE, b""), None
    if code != 0:
        return (0x81, E_WRONG_TYPE, b""), None
    if method == 3:
        return (0x81, E_MALFORMED, b""), 3
    if method in (1, 4) and mtype == 0x00:
        return (0x80, 0, b"R" + pl[:4]), method
    return None, method


def judge(s, own_sid, own_major, f, multicast, exc):
    out = []
    if exc:
        return [("no-exception", exc, f"datagram_received raised {exc}")]
    exp, handler = expected(own_sid, own_major, f, multicast)
    sent = s.transport.sent
    if exp is None:
        if sent:
            out.append(("no-reply", "multicast" if multicast else "unexpected-reply",
                        f"{len(sent)} datagrams sent, expected none"))
    else:
        if len(sent) != 1:
            out.append(("one-reply", f"count-{min(len(sent), 2)}", f"{len(sent)} datagrams sent, expected 1"))
        else:
            _, _, data, addr = sent[0]
            if addr != ADDR:
                out.append(("reply-destination", "wrong-addr", f"sent to {addr}"))
            try:
                msgs, err, tail = refcodec.dec_someip_all(data)
            except Exception as e:  # noqa: BLE001
                msgs, err, tail = [], str(e), b""
            if err or len(msgs) != 1:
                out.append(("reply-format", "undecodable", f"err={err} n={len(msgs)}"))
            else:
                m = msgs[0]
                got = (m["service"], m["method"], m["client"], m["session"], m["iface"], m["mtype"], m["code"],
                       m["payload"])
                want = (f[0], f[1], f[2], f[3], f[4]) + exp
                if got != want:
                    if got[:5] != want[:5]:
                        disc = "ids"
                    elif got[5] != want[5]:
                        disc = "message-type"
                    elif got[6] != want[6]:
                        disc = f"return-code-{want[6]}"
                    else:
                        disc = "payload"
                    out.append(("reply-content", disc, f"got {got!r:.160} want {want!r:.160}"))
    called = [c[0] for c in s.calls]
    if handler is None and called:
        out.append(("handler", "called-unexpectedly", f"handlers {called}"))
    if handler is not None and called != [handler]:
        out.append(("handler", "not-called-once", f"handlers {called} expected [{handler}]"))
    return out


def run_case(own_sid, own_major, f, multicast):
    loop = VLoop().install()
    try:
        s = make(loop, own_sid, own_major)
        data = refcodec.enc_someip(*f)
        exc = None
        try:
            s.datagram_received(data, ADDR, multicast)
        except Exception as e:  # noqa: BLE001
            exc = type(e).__name__
        loop.settle()
        return judge(s, own_sid, own_major, f, multicast, exc)
    finally:
        loop.dispose()


def part(args):
    own_sid, own_major, service, ctx_thorough, seed = args
    loop = VLoop().install()
    res = []
    n = 0
    classes = {}
    try:
        s = make(loop, own_sid, own_major)
        ifaces = (own_major, (own_major + 1) & 0xFF)
        methods = (1, 2, 3, 4, 0x7777, 0x8001) if ctx_thorough else (1, 2, 3, 4, 0x7777)
        ids = (0, 1, 0xFFFF, 0x1234 + seed % 1000) if ctx_thorough else (0, 1, 0xFFFF)
        pls = (b"", b"\x01", bytes(range(256)) + bytes(44))
        for iface, method, mtype, code, client, session, pl, multicast in itertools.product(
                ifaces, methods, refcodec.MESSAGE_TYPES, refcodec.RETURN_CODES, ids, ids, pls, (False, True)):
            f = (service, method, client, session, iface, mtype, code, pl)
            s.transport.sent.clear()
            s.calls.clear()
            exc = None
            try:
                s.datagram_received(refcodec.enc_someip(*f), ADDR, multicast)
            except Exception as e:  # noqa: BLE001
                exc = type(e).__name__
            if loop._ready or loop._scheduled:
                loop.settle()
            n += 1
            exp, handler = expected(own_sid, own_major, f, multicast)
            k = (exp[:2] if exp else None, handler, multicast)
            classes[k] = classes.get(k, 0) + 1
            for clause, disc, detail in judge(s, own_sid, own_major, f, multicast, exc):
                res.append((clause, disc, detail, dict(own=(own_sid, own_major), fields=f, multicast=multicast)))
    finally:
        loop.dispose()
    return n, res, classes


def part_history(args):
    """two datagrams from one sender to one service object: a damaged one (every truncation of a request,
    a request followed by garbage, a length field announcing more than is there), then a complete request"""
    own_sid, own_major = args
    loop = VLoop().install()
    res = []
    n = 0
    try:
        first = refcodec.enc_someip(own_sid, 2, 7, 8, own_major, 0x00, 0, b"abcdef")
        damaged = [first[:k] for k in range(1, len(first))]
        damaged += [first + first[:k] for k in (1, 8, 15, 16, 20)]
        damaged += [first[:4] + refcodec.tobe(8 + extra, 4) + first[8:] for extra in (7, 100, 0x7FFFFFF0)]
        second = (own_sid, 1, 0x11, 0x22, own_major, 0x00, 0, b"xy")
        for d in damaged:
            for other_first in (False, True):
                s = make(loop, own_sid, own_major)
                try:
                    s.datagram_received(d, ADDR, False)
                    if other_first:
                        s.datagram_received(d, ("192.0.2.78", 40001), False)
                except Exception as e:  # noqa: BLE001
                    res.append(("no-exception", type(e).__name__, f"damaged datagram raised {type(e).__name__}",
                                dict(own=(own_sid, own_major), history=d, fields=second, multicast=False)))
                    continue
                loop.settle()
                s.transport.sent.clear()
                s.calls.clear()
                exc = None
                try:
                    s.datagram_received(refcodec.enc_someip(*second), ADDR, False)
                except Exception as e:  # noqa: BLE001
                    exc = type(e).__name__
                loop.settle()
                n += 1
                for clause, disc, detail in judge(s, own_sid, own_major, second, False, exc):
                    res.append((clause, "after-damaged-datagram-" + disc, detail + f" (after a damaged datagram of {len(d)} bytes from the same sender)",
                                dict(own=(own_sid, own_major), history=d, fields=second, multicast=False)))
    finally:
        loop.dispose()
    return n, res, {}


def part_sequences(args):
    """every sequence of up to three messages from a 16-letter alphabet (handler kinds x request / fire-and-forget,
    failing header checks, multicast) to one fresh service object: the verdict on a message never depends on what was
    received before"""
    own_sid, own_major, maxlen, with_subscriber = args
    loop = VLoop().install()
    res = []
    n = 0
    try:
        alphabet = []
        for method in (1, 2, 3, 4):
            for mtype in (0x00, 0x01):
                alphabet.append(((own_sid, method, 0x10 + method, 0x20 + mtype, own_major, mtype, 0, b"ab"), False))
        alphabet += [((own_sid, 1, 1, 2, own_major, 0x00, 0, b"mc"), True), ((own_sid, 2, 1, 2, own_major, 0x01, 0, b"mc"), True),
                     ((own_sid, 0x7777, 1, 2, own_major, 0x00, 0, b""), False), ((own_sid ^ 0x0101, 1, 1, 2, own_major, 0x00, 0, b""), False),
                     ((own_sid, 1, 1, 2, (own_major + 1) & 0xFF, 0x00, 0, b""), False), ((own_sid, 1, 1, 2, own_major, 0x80, 0, b""), False),
                     ((own_sid, 1, 1, 2, own_major, 0x00, 1, b""), False), ((own_sid, 2, 1, 2, own_major, 0x02, 0, b""), False),
                     ((own_sid, 1, 3, 4, own_major, 0x01, 0, b"zz"), False), ((own_sid, 3, 3, 4, own_major, 0x01, 0, b""), True),
                     # the transport reports an error for an earlier datagram (ICMP port unreachable, another OS error):
                     # the next request is answered all the same
                     ("error", "ConnectionRefusedError"), ("error", "OSError")]
        for ln in range(2, maxlen + 1):
            for seq in itertools.product(range(len(alphabet)), repeat=ln):
                s = make(loop, own_sid, own_major, with_subscriber)
                n += 1
                for pos, li in enumerate(seq):
                    if alphabet[li][0] == "error":
                        s.transport.sent.clear()
                        try:
                            s.error_received({"ConnectionRefusedError": ConnectionRefusedError, "OSError": OSError}[alphabet[li][1]](111, "x"))
                        except Exception as e:  # noqa: BLE001
                            res.append(("no-exception", "error_received-" + type(e).__name__, f"error_received raised {type(e).__name__}",
                                        dict(own=(own_sid, own_major), sequence=[alphabet[i] for i in seq[:pos + 1]],
                                             with_subscriber=with_subscriber)))
                            break
                        if s.transport.sent:
                            res.append(("no-reply", "error_received-sends", "error_received caused a transmission",
                                        dict(own=(own_sid, own_major), sequence=[alphabet[i] for i in seq[:pos + 1]],
                                             with_subscriber=with_subscriber)))
                        continue
                    f, multicast = alphabet[li]
                    s.transport.sent.clear()
                    s.calls.clear()
                    exc = None
                    try:
                        s.datagram_received(refcodec.enc_someip(*f), ADDR, multicast)
                    except Exception as e:  # noqa: BLE001
                        exc = type(e).__name__
                    if loop._ready or loop._scheduled:
                        loop.settle()
                    bad = judge(s, own_sid, own_major, f, multicast, exc)
                    for clause, disc, detail in bad:
                        res.append((clause, "after-history-" + disc, detail + f" (message {pos + 1} of the sequence {seq})",
                                    dict(own=(own_sid, own_major), sequence=[alphabet[i] for i in seq[:pos + 1]],
                                         with_subscriber=with_subscriber)))
                    if bad:
                        break
                if len(res) > 40:
                    return n, res, {}
    finally:
        loop.dispose()
    return n, res, {}


def part_reentrant(args):
    """handlers that hand another message to the same service object before they return (a handler that loops a datagram
    back in-process, a synchronous stub): every message still gets its own reply - own ids, own sender - and the
    replies leave innermost first.  Every sequence of two or three messages from a 14-letter alphabet; the first is
    delivered, the next one is delivered by the first nesting handler that runs, and so on; what is left over is
    delivered afterwards (nothing of the nesting stays behind)"""
    own_sid, own_major, maxlen = args
    loop = VLoop().install()
    res = []
    n = 0
    addrs = [("192.0.2.77", 40000), ("192.0.2.78", 40000), ("192.0.2.77", 40001), ("192.0.2.78", 40001)]
    behave = {5: 1, 6: 3, 7: 2}  # nest, then: answer / reject as malformed / return nothing
    try:
        alphabet = []
        for method in (5, 6, 7):
            for mtype in (0x00, 0x01):
                alphabet.append((method, mtype, own_major, False))
        alphabet += [(1, 0x00, own_major, False), (1, 0x01, own_major, False), (2, 0x00, own_major, False), (3, 0x00, own_major, False),
                     (4, 0x00, own_major, False), (5, 0x00, own_major, True), (0x7777, 0x00, own_major, False),
                     (5, 0x00, (own_major + 1) & 0xFF, False)]

        def exp_of(f, mc):
            m = f[1]
            exp, handler = expected(own_sid, own_major, (f[0], behave.get(m, m)) + tuple(f[2:]), mc)
            return exp, (m if handler is not None else None)

        for ln in range(2, maxlen + 1):
            for seq in itertools.product(range(len(alphabet)), repeat=ln):
                if alphabet[seq[0]][0] not in behave:
                    continue
                s = make(loop, own_sid, own_major)
                items = []
                for pos, li in enumerate(seq):
                    method, mtype, iface, mc = alphabet[li]
                    items.append(((own_sid, method, 0x10 + pos, 0x20 + pos, iface, mtype, 0, bytes([0x61 + pos]) * 2), addrs[pos], mc))
                queue = list(items)
                exc = []

                def nest(q=queue, s=s, exc=exc):
                    if q:
                        f, addr, mc = q.pop(0)
                        try:
                            s.datagram_received(refcodec.enc_someip(*f), addr, mc)
                        except Exception as e:  # noqa: BLE001
                            exc.append(type(e).__name__)

                def h5(msg, addr, nest=nest):
                    nest()
                    return b"R" + msg.payload[:4]

                def h6(msg, addr, nest=nest):
                    nest()
                    raise svc.MalformedMessageError("no")

                def h7(msg, addr, nest=nest):
                    nest()
                    return None

                s.register_method(5, h5)
                s.register_method(6, h6)
                s.register_method(7, h7)
                while queue:
                    nest()
                if loop._ready or loop._scheduled:
                    loop.settle()
                n += 1
                # reference
                want = []
                rq = list(items)

                def deliver(item):
                    f, addr, mc = item
                    exp, handler = exp_of(f, mc)
                    if handler in behave and rq:
                        deliver(rq.pop(0))
                    if exp is not None:
                        want.append((addr, (f[0], f[1], f[2], f[3], f[4]) + exp))

                while rq:
                    deliver(rq.pop(0))
                got = []
                for _, _, data, addr in s.transport.sent:
                    try:
                        msgs, err, tail = refcodec.dec_someip_all(data)
                    except Exception as e:  # noqa: BLE001
                        msgs, err = [], str(e)
                    got += [(addr, (m["service"], m["method"], m["client"], m["session"], m["iface"], m["mtype"], m["code"], m["payload"]))
                            for m in msgs]
                case = dict(own=(own_sid, own_major), nested=[[list(f[:7]) + [f[7].hex()], list(a), mc] for f, a, mc in items])
                if exc:
                    res.append(("no-exception", "nested-" + exc[0], f"datagram_received raised {exc}", case))
                elif got != want:
                    disc = "count" if len(got) != len(want) else ("destination" if [g[0] for g in got] != [w[0] for w in want] else "content")
                    res.append(("reply-content" if disc == "content" else ("reply-destination" if disc == "destination" else "one-reply"),
                                "nested-calls-" + disc, f"replies {got!r:.300} expected {want!r:.300}", case))
                if len(res) > 40:
                    return n, res, {}
    finally:
        loop.dispose()
    return n, res, {}


def part_slow(args):
    """handlers that take real time (blocking work inside the handler: 0.12 s, 1.05 s - longer than the usual
    'slow callback' thresholds of 0.1 s and 1 s): the reply is the same as for a fast handler.  The only part of this
    check that lets real time pass; a sleep is at least as long as asked for, so the outcome does not depend on load"""
    import time
    own_sid, own_major, durations = args
    loop = VLoop().install()
    res = []
    n = 0
    try:
        for dur in durations:
            for method, mtype in ((5, 0x00), (5, 0x01), (6, 0x00), (7, 0x00)) if dur < 1 else ((5, 0x00),):
                s = make(loop, own_sid, own_major)

                def h5(msg, addr, dur=dur):
                    time.sleep(dur)
                    return b"R" + msg.payload[:4]

                def h6(msg, addr, dur=dur):
                    time.sleep(dur)
                    raise svc.MalformedMessageError("no")

                def h7(msg, addr, dur=dur):
                    time.sleep(dur)
                    return None

                s.register_method(5, h5)
                s.register_method(6, h6)
                s.register_method(7, h7)
                f = (own_sid, method, 0x11, 0x22, own_major, mtype, 0, b"slow")
                nxt = (own_sid, 1, 0x12, 0x23, own_major, 0x00, 0, b"next")
                exc = None
                try:
                    # a second, ordinary request follows in the same datagram
                    s.datagram_received(refcodec.enc_someip(*f) + refcodec.enc_someip(*nxt), ADDR, False)
                except Exception as e:  # noqa: BLE001
                    exc = type(e).__name__
                if loop._ready or loop._scheduled:
                    loop.settle()
                n += 1
                want = []
                for g in (f, nxt):
                    exp, _ = expected(own_sid, own_major, (g[0], {5: 1, 6: 3, 7: 2}.get(g[1], g[1])) + tuple(g[2:]), False)
                    if exp is not None:
                        want.append((ADDR, (g[0], g[1], g[2], g[3], g[4]) + exp))
                got = []
                for _, _, data, addr in s.transport.sent:
                    msgs, err, tail = refcodec.dec_someip_all(data)
                    got += [(addr, (m["service"], m["method"], m["client"], m["session"], m["iface"], m["mtype"], m["code"], m["payload"]))
                            for m in msgs]
                case = dict(own=(own_sid, own_major), slow=[dur, method, mtype])
                if exc:
                    res.append(("no-exception", f"slow-handler-{exc}", f"handler took {dur} s: datagram_received raised {exc}", case))
                elif got != want:
                    res.append(("one-reply", "slow-handler", f"handler took {dur} s: replies {got!r:.300} expected {want!r:.300}", case))
    finally:
        loop.dispose()
    return n, res, {}


def part_special_ids(args):
    """header values that mean something elsewhere in SOME/IP (the SD service and method ids, the ids of the TCP "magic
    cookie" messages and near misses): to a service endpoint they are ordinary field values - alone in a datagram, in
    front of and behind an ordinary request; also for a service whose own id is 0xFFFF"""
    own_sid, own_major = args
    loop = VLoop().install()
    res = []
    n = 0
    try:
        for own in (own_sid, 0xFFFF):
            s = make(loop, own, own_major)
            plain = (own, 1, 0x31, 0x32, own_major, 0x00, 0, b"pl")
            for service, method, (client, session), mtype, where in itertools.product(
                    (0xFFFF, own_sid), (0x0000, 0x8000, 0x8100, 0x0001), ((0xDEAD, 0xBEEF), (0xDEAD, 0xBEEE), (0xBEEF, 0xDEAD), (0xFFFF, 0xFFFF)),
                    (0x00, 0x01, 0x02, 0x80), ("alone", "in front", "behind")):
                f = (service, method, client, session, own_major, mtype, 0, b"")
                seq = {"alone": [f], "in front": [f, plain], "behind": [plain, f]}[where]
                s.transport.sent.clear()
                s.calls.clear()
                exc = None
                try:
                    s.datagram_received(b"".join(refcodec.enc_someip(*g) for g in seq), ADDR, False)
                except Exception as e:  # noqa: BLE001
                    exc = type(e).__name__
                if loop._ready or loop._scheduled:
                    loop.settle()
                n += 1
                want, handlers = [], []
                for g in seq:
                    exp, h = expected(own, own_major, g, False)
                    if exp is not None:
                        want.append((g[0], g[1], g[2], g[3], g[4]) + exp)
                    if h is not None:
                        handlers.append(h)
                got = []
                for _, _, data, addr in s.transport.sent:
                    msgs, err, tail = refcodec.dec_someip_all(data)
                    got += [(m["service"], m["method"], m["client"], m["session"], m["iface"], m["mtype"], m["code"], m["payload"])
                            for m in msgs]
                case = dict(own=(own, own_major), special=[list(g[:7]) + [g[7].hex()] for g in seq])
                if exc:
                    res.append(("no-exception", f"special-ids-{exc}", f"datagram_received raised {exc}", case))
                elif got != want or [c[0] for c in s.calls] != handlers or any(x[3] != ADDR for x in s.transport.sent):
                    res.append(("one-reply", "special-ids", f"message {f[:7]} {where}: replies {got!r:.200} expected {want!r:.200}; "
                                f"handlers {[c[0] for c in s.calls]} expected {handlers}", case))
                if len(res) > 40:
                    return n, res, {}
    finally:
        loop.dispose()
    return n, res, {}


def part_long(args):
    """one datagram that holds as many requests as fit (16-byte messages up to the UDP payload limit): every one
    gets its own reply, in order"""
    own_sid, own_major = args
    loop = VLoop().install()
    res = []
    n = 0
    try:
        for count in (255, 1000, 2000, 4094):
            s = make(loop, own_sid, own_major)
            reqs = [(own_sid, 1 + (i % 3), i & 0xFFFF, (i * 7) & 0xFFFF, own_major, 0x00, 0, b"") for i in range(count)]
            exc = None
            try:
                s.datagram_received(b"".join(refcodec.enc_someip(*f) for f in reqs), ADDR, False)
            except Exception as e:  # noqa: BLE001
                exc = type(e).__name__
            loop.settle()
            n += 1
            case = dict(own=(own_sid, own_major), long=count)
            if exc:
                res.append(("no-exception", f"long-datagram-{exc}", f"{count} requests in one datagram: {exc} after "
                            f"{len(s.transport.sent)} replies", case))
                continue
            want = []
            for f in reqs:
                exp, _ = expected(own_sid, own_major, f, False)
                if exp is not None:
                    want.append((f[0], f[1], f[2], f[3], f[4]) + exp)
            got = []
            for _, _, data, addr in s.transport.sent:
                msgs, err, tail = refcodec.dec_someip_all(data)
                got += [(m["service"], m["method"], m["client"], m["session"], m["iface"], m["mtype"], m["code"], m["payload"])
                        for m in msgs]
            if got != want or any(x[3] != ADDR for x in s.transport.sent):
                res.append(("one-reply", "long-datagram", f"{count} requests in one datagram: {len(got)} replies, expected "
                            f"{len(want)} (in order, to the sender)", case))
            if [c[0] for c in s.calls] != [f[1] for f in reqs]:
                res.append(("handler", "long-datagram", f"{count} requests: handlers ran {len(s.calls)} times", case))
    finally:
        loop.dispose()
    return n, res, {}


def own_sid_of(ctx):
    return 0x1000 + ctx.seed % 0xE000


def check(ctx):
    own_sid = 0x1000 + ctx.seed % 0xE000
    own_major = 1 + ctx.seed % 200
    parts = [(own_sid, own_major, s, ctx.thorough, ctx.seed) for s in (own_sid, own_sid ^ 0x0101)]
    # split further by doing each service in one worker; the product per part is ~87k cases
    out = core.pmap(part, parts, 1)
    out += core.pmap(part_history, [(own_sid, own_major)], 1)
    out += core.pmap(part_long, [(own_sid, own_major)], 1)
    out += core.pmap(part_special_ids, [(own_sid, own_major)], 1)
    out += core.pmap(part_slow, [(own_sid, own_major, (0.12, 1.05) if not ctx.thorough else (0.12, 0.55, 1.05, 5.1))], 1)
    out += core.pmap(part_reentrant, [(own_sid, own_major, 4 if ctx.thorough else 3)], 1)
    out += core.pmap(part_sequences, [(own_sid, own_major, 4 if ctx.thorough else 3, ws) for ws in (False, True)], 1)
    n = sum(o[0] for o in out)
    viols = []
    classes = {}
    for _, res, cl in out:
        for clause, disc, detail, case in res:
            viols.append(core.Violation(ctx.prop, clause, disc, case, detail=detail))
        for k, v in cl.items():
            classes[k] = classes.get(k, 0) + v
    samples = core.Samples()
    samples.add(dict(fields=(own_sid, 1, 0xFFFF, 1, own_major, 0, 0, b"\x01"), multicast=False), "RESPONSE")
    samples.add(dict(fields=(own_sid ^ 0x0101, 0x7777, 0, 0, own_major + 1, 0x81, 9, b""), multicast=False),
                "fails several checks: unknown service decides")
    nontrivial = sum(v for k, v in classes.items() if k[0] is not None)
    cov = dict(
        evaluations=n, distinct_nontrivial=nontrivial, exhaustive=True,
        rule="full product service{own,other} x interface{own,other} x method{m1,m2,m3,unknown} x 10 message types x "
             "11 return codes x client ids x session ids x 3 payloads x {unicast,multicast}; every input is distinct; "
             "non-trivial = inputs for which the decision table demands a reply",
        samples=samples.out(),
        outcome_classes={f"reply={k[0]} handler={k[1]} multicast={k[2]}": v for k, v in sorted(classes.items(), key=repr)},
        distinct_outcomes=len(classes),
    )
    return core.finish(ctx, "exploration", cov, viols, [
        "the service object is reused across cases of one partition (it holds no per-request state; methods table "
        "and transport log are reset), the replay path uses a fresh object",
    ])


def replay(ctx, body):
    case = body["case"]
    own = case["own"]
    if "sequence" in case:
        loop = VLoop().install()
        try:
            s = make(loop, own[0], own[1], bool(case.get("with_subscriber")))
            res = []
            for f, multicast in case["sequence"]:
                if f == "error":
                    s.error_received({"ConnectionRefusedError": ConnectionRefusedError, "OSError": OSError}[multicast](111, "x"))
                    res = []
                    continue
                s.transport.sent.clear()
                s.calls.clear()
                s.datagram_received(refcodec.enc_someip(*f), ADDR, bool(multicast))
                loop.settle()
                res = judge(s, own[0], own[1], tuple(f), bool(multicast), None)
        finally:
            loop.dispose()
        for r in res:
            print("FAILS (last message of the sequence):", r)
        return 1 if res else 0
    if "special" in case:
        import json
        _, res, _ = part_special_ids((own_sid_of(ctx), own[1]))
        res = [r for r in res if json.dumps(r[3]["special"]) == json.dumps(case["special"]) and list(r[3]["own"]) == list(own)]
        for r in res:
            print("FAILS:", r[:3])
        return 1 if res else 0
    if "slow" in case:
        _, res, _ = part_slow((own[0], own[1], (case["slow"][0],)))
        for r in res:
            print("FAILS:", r[:3])
        return 1 if res else 0
    if "nested" in case:
        _, res, _ = part_reentrant((own[0], own[1], len(case["nested"])))
        import json
        res = [r for r in res if json.dumps(r[3]["nested"]) == json.dumps(case["nested"])]
        for r in res:
            print("FAILS:", r[:3])
        return 1 if res else 0
    if "long" in case:
        _, res, _ = part_long((own[0], own[1]))
        res = [r for r in res if r[3]["long"] == case["long"]]
        for r in res:
            print("FAILS:", r[:3])
        return 1 if res else 0
    if "history" in case:
        loop = VLoop().install()
        try:
            s = make(loop, own[0], own[1])
            s.datagram_received(case["history"], ADDR, False)
            loop.settle()
            s.transport.sent.clear()
            s.calls.clear()
            s.datagram_received(refcodec.enc_someip(*case["fields"]), ADDR, False)
            loop.settle()
            res = judge(s, own[0], own[1], tuple(case["fields"]), False, None)
        finally:
            loop.dispose()
        for r in res:
            print("FAILS:", r)
        return 1 if res else 0
    res = run_case(own[0], own[1], tuple(case["fields"]), bool(case["multicast"]))
    res2 = run_case(own[0], own[1], tuple(case["fields"]), bool(case["multicast"]))
    if res != res2:
        print("HARNESS-ERROR: nondeterministic replay")
        return 2
    for r in res:
        print("FAILS:", r)
    return 1 if res else 0
