"""C06 - server subscription records are truthful; acknowledged subscriptions are held (E1).

Real code driven: ServiceDiscoveryProtocol.datagram_received -> sd_message_received ->
ServiceAnnouncer.handle_subscribe -> ServiceInstance.handle_subscribe -> TimedStore, plus
announcer.start/stop, announce_service/stop_announce_service, connection_lost."""
from __future__ import annotations

import someip.config as cfg_
import someip.sd as sd

from .. import canon, core, e1, refcodec
from ..world import Choice, RandomSeam, ServerRec, make_sd, timings

INF = 0xFFFFFF
CL = {"C1": ("192.0.2.51", 30490), "C2": ("192.0.2.52", 30490),
      # subscriber addresses that differ from another one in a single component: the port (C5 vs C1), the scope id
      # (C3 vs C4: one link-local address seen on two interfaces)
      "C3": ("fe80::51", 30490, 0, 2), "C4": ("fe80::51", 30490, 0, 3), "C5": ("192.0.2.51", 30491)}
CLNAME = {v: k for k, v in CL.items()}
# subscription key -> (eventgroup, counter, endpoint option)
SUBS = {
    "a": (5, 0, refcodec.v4("192.0.2.51", 3005)),
    "b": (5, 1, refcodec.v4("192.0.2.51", 3005)),
    "c": (6, 0, refcodec.v4("192.0.2.51", 3006)),
    "d": (5, 0, refcodec.v4("192.0.2.51", 3099)),  # like 'a', other endpoint: a different subscription
    "e": (5, 0, refcodec.v4("192.0.2.51", 3055)),  # at a second service instance (instance id 2) of the same endpoint
}
INSTANCE_OF = {"e": 2}
MSGS = {
    "sub-a1": [("a", 1)], "sub-a2": [("a", 2)], "sub-ainf": [("a", INF)], "stop-a": [("a", 0)],
    "sub-b2": [("b", 2)], "stop-b": [("b", 0)], "sub-c2": [("c", 2)], "stop-c": [("c", 0)],
    "stop-a+sub-a2": [("a", 0), ("a", 2)], "sub-a2+sub-c2": [("a", 2), ("c", 2)],
    "sub-d2": [("d", 2)], "stop-d": [("d", 0)],
    # one message that holds the same entry twice with the opposite entry in between: three operations, in order
    "sub-e2": [("e", 2)], "sub-einf": [("e", INF)], "stop-e": [("e", 0)], "sub-a2+sub-e2": [("a", 2), ("e", 2)],
    "stop-a+sub-a2+stop-a": [("a", 0), ("a", 2), ("a", 0)], "sub-a2+stop-a+sub-a2": [("a", 2), ("a", 0), ("a", 2)],
}


def sid_for(seed):
    return 0x3000 + seed % 0xC000


class Model:
    def __init__(self):
        self.live = {}  # (client, subkey) -> expiry | None
        self.last = {}  # (client, subkey) -> 'subscribed' | 'unsubscribed'
        self.reject6 = False
        self.started = True
        self.announced = True
        self.sent_before = set()
        self.connlost_pending = False

    @property
    def running(self):
        return self.started and self.announced

    def _canon_(self, now):
        return (tuple(sorted((k, None if v is None else v - now) for k, v in self.live.items())),
                tuple(sorted(self.last.items())), self.reject6, self.started, self.announced, self.connlost_pending,
                tuple(sorted(self.sent_before, key=repr)))


class Sys(e1.TimedSys):
    def setup(self, cfg):
        self.sid = cfg["sid"]
        self.advs = tuple(cfg["advs"])
        self.menu = cfg["menu"]
        self.controls = cfg["controls"]
        self.max_deviations = cfg.get("deviations", 0)
        self.seam = RandomSeam(Choice())
        self.seam.__enter__()
        if cfg.get("cyclic"):
            # cyclic offers with an initial wait phase: subscriptions accepted before the first offer, stops at any phase
            tm = timings(CYCLIC_OFFER_DELAY=1, REPETITIONS_MAX=0, INITIAL_DELAY_MIN=0.125, INITIAL_DELAY_MAX=0.125)
        else:
            tm = timings(CYCLIC_OFFER_DELAY=0, REPETITIONS_MAX=0)
        self.prot = make_sd(self.loop, tm)
        self.log = []
        self.nlog = 0
        self.model = Model()
        self.listener = ServerRec("S", self.log, self.loop)
        self.inst = sd.ServiceInstance(cfg_.Service(self.sid, 1, 1, 0, eventgroups=frozenset({5, 6})),
                                       self.listener, self.prot.announcer, self.prot.timings)
        self.prot.announcer.announce_service(self.inst)
        if cfg.get("two_instances"):
            self.inst2 = sd.ServiceInstance(cfg_.Service(self.sid, 2, 1, 0, eventgroups=frozenset({5})),
                                            self.listener, self.prot.announcer, self.prot.timings)
            self.prot.announcer.announce_service(self.inst2)
        self.prot.announcer.start()
        self.loop.settle()
        self.prot.transport.sent.clear()
        self.wire = {}
        self.nsent = 0
        self.expected_acks = []
        self.step_reboot = None

    def close(self):
        self.seam.__exit__(None, None, None)
        super().close()

    def roots(self):
        return [self.prot, self.inst, self.listener, self.model] + ([self.inst2] if self.cfg.get("two_instances") else [])

    def key(self):
        c = canon.Canon(self.loop)
        c.abstract_incoming = True
        return canon.key_of((c.snapshot(self.roots()), self.key_extra()))

    def key_extra(self):
        sr = self.step_reboot
        pend = None if sr is None else (sr[0], tuple(sorted(sr[1])))
        return super().key_extra() + (pend, tuple(self.expected_acks))

    def actions(self):
        m = self.model
        held = [h.args[0] for h in self.held]
        acts = []
        for cl, name, ev in self.menu:
            if (ev[0] == "r" and cl not in m.sent_before) or (ev == "M" and (cl, "mc") not in m.sent_before):
                continue
            acts.append(("msg", cl, name, ev))
        if any(h[0] != "msg" for h in held):
            return acts  # a control call is already pending in this iteration
        for c in self.controls:
            if c == "reject":
                acts.append(("reject6", not m.reject6))
            elif c == "announcer":
                acts.append(("ann-stop",) if m.started else ("ann-start",))
            elif c == "service":
                acts.append(("svc-stop",) if m.announced else ("svc-start",))
            elif c == "connlost":
                acts.append(("connlost",))
        return acts

    # ------------------------------------------------------------------------------------
    def _drop_all(self, client=None):
        m = self.model
        for key in [k for k in m.live if client is None or k[0] == client]:
            del m.live[key]

    def do(self, act):
        now = self.loop.time()
        m = self.model
        ann = self.prot.announcer
        if act[0] == "msg":
            _, cl, name, ev = act
            uflag = not ev.endswith("u")  # SD unicast flag clear: the entries are ignored, the sender is still tracked
            # 'm' / 'M': the message arrives on the multicast channel (its Subscribe entries are ignored there, C11);
            # 'M' carries reboot evidence relative to the sender's multicast history
            mc = ev in ("m", "M")
            wkey = (cl, "mc") if mc else cl
            if mc:
                uflag = False  # nothing in it counts
            if ev[0] == "r" or ev == "M":
                sess = 1
                self.step_reboot = (cl, {k[1] for k, v in m.last.items() if k[0] == cl and v == "subscribed"})
                self._drop_all(cl)
            else:
                sess = self.wire.get(wkey, self.cfg.get("session_base", 0)) + 1
            self.wire[wkey] = sess
            m.sent_before.add(wkey)
            entries = []
            for sk, ttl in MSGS[name]:
                eg, counter, ep = SUBS[sk]
                entries.append(("subscribe", self.sid, INSTANCE_OF.get(sk, 1), 1, ttl, (counter << 16) | eg, (ep,), ()))
                key = (cl, sk)
                if not uflag:
                    continue
                if ttl == 0:
                    m.live.pop(key, None)
                    continue
                if not m.running:
                    self.expected_acks.append((cl, sk, 0))
                elif key in m.live:
                    m.live[key] = None if ttl == INF else now + ttl
                    self.expected_acks.append((cl, sk, ttl))
                elif eg == 6 and m.reject6:
                    self.expected_acks.append((cl, sk, 0))
                else:
                    m.live[key] = None if ttl == INF else now + ttl
                    self.expected_acks.append((cl, sk, ttl))
            data = refcodec.sd_message(sess, entries, reboot=True, unicast=True if mc else uflag)
            self.prot.datagram_received(data, CL[cl], mc)
        elif act[0] == "reject6":
            m.reject6 = act[1]
            if act[1]:
                self.listener.reject.add(6)
            else:
                self.listener.reject.discard(6)
        elif act[0] == "ann-stop":
            m.started = False
            self._drop_all()
            ann.stop()
        elif act[0] == "ann-start":
            m.started = True
            ann.start()
        elif act[0] == "svc-stop":
            m.announced = False
            self._drop_all()
            ann.stop_announce_service(self.inst)
        elif act[0] == "svc-start":
            m.announced = True
            ann.announce_service(self.inst)
        elif act[0] == "connlost":
            # connection loss stops the announcer; the protocol object defers it by one callback, so
            # the model applies it when the step is over (a Subscribe handled in between is
            # legitimately acknowledged first and dropped right after)
            self.model.connlost_pending = True
            self.prot.connection_lost(None)

    # ------------------------------------------------------------------------------------
    def _sweep(self, keep=()):
        now = self.loop.time()
        r = self.loop._clock_resolution
        m = self.model
        for key, exp in list(m.live.items()):
            if exp is not None and exp < now + r and key not in keep:
                del m.live[key]

    def before_step(self, ev):
        self.step_reboot = None
        adv, pos, act, mode = ev
        if self.model.connlost_pending:
            # the deferred part of an earlier connection_lost() runs before this step's action
            self.model.connlost_pending = False
            self.model.started = False
            self._drop_all()
        keep = ()
        if pos == "pre" and act is not None and act[0] == "msg":
            # tie: the message is handled before the timers of this iteration, so a Subscribe in it
            # finds the entry still present (refresh wins, 'no notification'); entries it does not
            # refresh expire in the sweep after the step
            keep = {(act[1], sk) for sk, ttl in MSGS[act[2]]}
        self._sweep(keep)

    def _subkey(self, sub):
        for sk, (eg, counter, ep) in SUBS.items():
            if sub.id == eg and sub.counter == counter and {(o.address.packed, o.port) for o in sub.endpoints} == {(ep[1], ep[3])}:
                return sk
        return "?"

    def after_step(self, ev):
        m = self.model
        if ev[3] != "hold":
            self._sweep()
        if self.model.connlost_pending and self.loop.idle() and not self.held:
            self.model.connlost_pending = False
            m.started = False
            self._drop_all()
        new = self.log[self.nlog:]
        self.nlog = len(self.log)
        kinds = []
        for t, it, ln, kind, sub, source in new:
            cl = CLNAME.get(source, "?")
            sk = self._subkey(sub)
            kinds.append((kind, cl, sk))
            if kind == "rejected":
                continue
            prev = m.last.get((cl, sk))
            if kind == prev or (prev is None and kind == "unsubscribed"):
                self.viol("alternation", f"{kind}-after-{prev}",
                          f"listener got '{kind}' for {sk}@{cl} after '{prev}' (event {ev}, step log {kinds})")
            m.last[(cl, sk)] = kind
        self.last_kinds = kinds
        self.outcome = tuple(k[0][0] for k in kinds)
        if self.step_reboot is not None and self.loop.idle():
            cl, had = self.step_reboot
            seq = [(kind, sk) for kind, c, sk in kinds if c == cl]
            first_sub = next((i for i, x in enumerate(seq) if x[0] == "subscribed"), len(seq))
            for sk in sorted(had):
                idx = next((i for i, x in enumerate(seq) if x == ("unsubscribed", sk)), None)
                if idx is None:
                    self.viol("reboot-order", "not-unsubscribed", f"{sk}@{cl} was subscribed; reboot evidence did not end it: {seq}")
                elif idx > first_sub:
                    self.viol("reboot-order", "unsubscribed-after-subscribed",
                              f"'unsubscribed' for {sk}@{cl} came after a 'subscribed' of the same message: {seq}")
        if not self.loop.idle() or self.held:
            return
        # acknowledgements of this step
        sent = self.prot.transport.sent[self.nsent:]
        self.nsent = len(self.prot.transport.sent)
        acks = []
        for t, it, data, addr in sent:
            try:
                for msg in refcodec.dec_sd_datagram(data):
                    for e in msg["entries"]:
                        if e[0] == "suback":
                            acks.append((CLNAME.get(addr, str(addr)), e[5] & 0xFFFF, (e[5] >> 16) & 0xF, e[4]))
            except refcodec.RefError as exc:
                self.viol("wire", "undecodable", f"sent datagram not decodable: {exc}")
        expected_acks, self.expected_acks = self.expected_acks, []
        pos = sorted((c, eg, cnt, ttl) for c, eg, cnt, ttl in acks if ttl != 0)
        exp_pos = sorted((c, SUBS[sk][0], SUBS[sk][1], ttl) for c, sk, ttl in expected_acks if ttl != 0)
        if pos != exp_pos:
            self.viol("ack", "positive-acks-differ", f"positive SubscribeAcks {pos}, expected {exp_pos} (event {ev})")
        for c, sk, ttl in expected_acks:
            if ttl == 0 and not any(a[0] == c and a[1] == SUBS[sk][0] and a[2] == SUBS[sk][1] and a[3] == 0 for a in acks):
                self.viol("ack", "nack-missing", f"no negative acknowledgement for {sk}@{c} (event {ev}); acks {acks}")
        for cl in CL:
            for sk in SUBS:
                last = m.last.get((cl, sk))
                live = (cl, sk) in m.live
                if last == "subscribed" and not live:
                    self.viol("idle-truth", "subscribed-but-not-live",
                              f"listener believes {sk}@{cl} subscribed, but it is not live (event {ev})")
                if live and last != "subscribed":
                    self.viol("idle-truth", "live-but-not-subscribed",
                              f"{sk}@{cl} was accepted (and acknowledged) and nothing ended it, but the listener's latest "
                              f"notification is {last} (event {ev})")

    def describe_step(self):
        return self.last_kinds

    def on_exception(self, act, e):
        self.viol("no-exception", type(e).__name__, f"action {act} raised {type(e).__name__}: {e}")


CLOSURE = 40


def configs(ctx):
    sid = sid_for(ctx.seed)
    base = (None, "half", "next", "next-2r")
    full = (None, "half", "next", "next-2r", "next-r/2", "next+eps")
    c1a = [("C1", n, e) for n in ("sub-a1", "sub-a2", "sub-ainf", "stop-a") for e in ("n", "r")]
    out = []
    out.append(("C1-a-deep", dict(sid=sid, advs=full, menu=c1a, controls=("announcer",),
                                  deviations=ctx.pick(1, 2), fine=ctx.pick(1, 2)), CLOSURE))
    # the same with a subscriber whose session counter is far advanced when it reboots (0xFFF0 -> 1)
    out.append(("C1-a-high-session", dict(sid=sid, advs=base, menu=c1a, controls=(), deviations=0, fine=1,
                                          session_base=0xFFF0 - ctx.seed % 0x7000), CLOSURE))
    menu = c1a + [("C1", n, "n") for n in ("sub-b2", "stop-b", "sub-c2", "stop-c", "stop-a+sub-a2", "sub-a2+sub-c2")] + \
        [("C1", "sub-a2+sub-c2", "r")] + [("C2", n, e) for n in ("sub-a2", "stop-a") for e in ("n", "r")]
    out.append(("full-menu", dict(sid=sid, advs=base, menu=menu, controls=("reject", "announcer", "service", "connlost"),
                                  deviations=0, fine=1), ctx.pick(3, 5)))
    ident = [("C1", n, "n") for n in ("sub-a2", "stop-a", "sub-d2", "stop-d", "sub-b2", "stop-a+sub-a2+stop-a", "sub-a2+stop-a+sub-a2")]
    out.append(("identity", dict(sid=sid, advs=(None, "next"), menu=ident, controls=(), deviations=0, fine=0), CLOSURE))
    # one subscriber at two service instances of the endpoint: a reboot ends its subscriptions at both
    two = [("C1", n, "n") for n in ("sub-a2", "stop-a", "sub-e2", "sub-einf", "stop-e")] + \
        [("C1", n, "r") for n in ("sub-a2", "sub-e2", "sub-a2+sub-e2", "stop-a")] + [("C2", "sub-e2", "n"), ("C2", "sub-e2", "r")]
    out.append(("two-instances", dict(sid=sid, advs=(None, "next"), menu=two, controls=(), deviations=0, fine=0, two_instances=True),
                CLOSURE))
    both = [("C1", n, e) for n in ("sub-a2", "stop-a") for e in ("n", "r", "m", "M")]
    out.append(("C1-both-channels", dict(sid=sid, advs=(None, "next"), menu=both, controls=(), deviations=1, fine=0), CLOSURE))
    uf = [("C1", n, e) for n in ("sub-a2", "stop-a", "sub-c2") for e in ("n", "r", "nu", "ru")]
    out.append(("C1-unicast-flag-clear", dict(sid=sid, advs=(None, "next"), menu=uf, controls=(), deviations=0, fine=0), CLOSURE))
    alias = [(c, n, "n") for c in ("C1", "C5", "C3", "C4") for n in ("sub-a2", "stop-a")] + [("C3", "sub-a2", "r"), ("C5", "stop-a", "r")]
    out.append(("aliased-subscriber-addresses", dict(sid=sid, advs=(None, "next"), menu=alias, controls=(), deviations=0,
                                                     fine=0), ctx.pick(5, 7)))
    cyc = [("C1", n, "n") for n in ("sub-a2", "sub-ainf", "stop-a")]
    out.append(("cyclic-offers-lifecycle", dict(sid=sid, advs=(None, "half", "next"), menu=cyc, controls=("announcer", "service"),
                                                deviations=1, fine=0, cyclic=True), CLOSURE))
    lifecycle = [("C1", n, "n") for n in ("sub-a2", "sub-c2", "stop-a")]
    out.append(("lifecycle", dict(sid=sid, advs=base, menu=lifecycle,
                                  controls=("reject", "announcer", "service", "connlost"),
                                  deviations=ctx.pick(1, 2), fine=1), CLOSURE))
    return out


def check(ctx):
    details, viols = [], []
    samples = core.Samples()
    for name, cfg, depth in configs(ctx):
        res, vs, det = e1.search(ctx, Sys, cfg, depth, name)
        core.close_pool()
        details.append(det)
        viols += vs
        if res.deepest is not None:
            samples.add(dict(search=name, history=res.deepest[0]))
    cov = e1.summarize(details)
    cov["samples"] = samples.out()
    cov["exhaustive"] = not cov["caps_hit"]
    cov["depth_completed"] = {d["search"]: d["depth_completed"] for d in details}
    return core.finish(ctx, "model_checking", cov, viols, [
        "one service instance with eventgroups {5, 6}; non-cyclic offers so that no unrelated timers interleave",
        "acknowledgement exactness is C11's job; here positive acks must equal the model's accepted set",
        "histories beyond the stated depth / alphabet are not covered",
    ])


def replay(ctx, body):
    return e1.replay_case(Sys, body)
