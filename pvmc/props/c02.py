"""C02 - SD messages round-trip: every entry keeps exactly its own options (E4 + E3).

layer 1  _find against naive sub-sequence search (all words over a 3-letter alphabet)
layer 2  BFS over the encoder's shared option array: a state is the array after some entries were
         assigned, a transition assigns one more entry with the real assign_option_index
layer 3  whole messages: assign_option_indexes().build() read by the independent decoder, and
         parse().resolve_options() compared with the original; entry field sweeps
layer 4  unrepresentable messages: exception, or bytes that decode to exactly the original
layer 5  the same through send_sd -> sendto bytes -> a second protocol's datagram_received"""
from __future__ import annotations

import dataclasses
import ipaddress
import itertools

import someip.header as hdr

from .. import core, refcodec
from ..vloop import FakeTransport, VLoop
from ..world import make_sd

T = hdr.SOMEIPSDEntryType
B16 = (0, 1, 0x00FF, 0x0100, 0x7FFF, 0x8000, 0xFFFE, 0xFFFF)


def option_pool():
    v4 = ipaddress.IPv4Address("192.0.2.7")
    v6 = ipaddress.IPv6Address("2001:db8::7")
    return [
        hdr.IPv4EndpointOption(v4, hdr.L4Protocols.UDP, 30501),
        hdr.IPv6EndpointOption(v6, hdr.L4Protocols.TCP, 30502),
        hdr.IPv4MulticastOption(ipaddress.IPv4Address("224.0.0.9"), hdr.L4Protocols.UDP, 30503),
        hdr.IPv6MulticastOption(ipaddress.IPv6Address("ff02::9"), hdr.L4Protocols.UDP, 30504),
        hdr.IPv4SDEndpointOption(v4, hdr.L4Protocols.UDP, 30490),
        hdr.IPv6SDEndpointOption(v6, hdr.L4Protocols.UDP, 30490),
        hdr.SOMEIPSDLoadBalancingOption(priority=0x0102, weight=0xFFFE),
        hdr.SOMEIPSDConfigOption(configs=(("key", None),)),
        hdr.SOMEIPSDConfigOption(configs=(("foo", "bar"), ("k", None))),
        hdr.SOMEIPSDConfigOption(configs=(("a", "b=c"), ("empty", ""))),
        hdr.SOMEIPSDUnknownOption(type=0x77, payload=b"\x00\x01\x02"),
        hdr.IPv4EndpointOption(v4, 0x99, 1),  # unknown transport protocol number
        # the smallest options there are: unknown type, 1 and 2 bytes behind the type byte
        hdr.SOMEIPSDUnknownOption(type=0x78, payload=b"\x00"),
        hdr.SOMEIPSDUnknownOption(type=0x79, payload=b"\x00\x01"),
    ]


def twin_pool():
    """options of different kinds that agree in every field value (address, protocol, port): only the option type
    tells them apart on the wire"""
    v4 = ipaddress.IPv4Address("192.0.2.9")
    v6 = ipaddress.IPv6Address("2001:db8::9")
    out = []
    for proto in (hdr.L4Protocols.UDP, hdr.L4Protocols.TCP):
        out += [hdr.IPv4EndpointOption(v4, proto, 30509), hdr.IPv4MulticastOption(v4, proto, 30509),
                hdr.IPv4SDEndpointOption(v4, proto, 30509),
                hdr.IPv6EndpointOption(v6, proto, 30509), hdr.IPv6MulticastOption(v6, proto, 30509),
                hdr.IPv6SDEndpointOption(v6, proto, 30509)]
    # addresses with a special form: IPv4-mapped IPv6, unspecified, multicast
    out += [hdr.IPv6EndpointOption(ipaddress.IPv6Address("::ffff:192.0.2.9"), hdr.L4Protocols.UDP, 30509),
            hdr.IPv6MulticastOption(ipaddress.IPv6Address("::"), hdr.L4Protocols.UDP, 30509),
            hdr.IPv4EndpointOption(ipaddress.IPv4Address("0.0.0.0"), hdr.L4Protocols.UDP, 30509)]
    # configuration options with the same items in another order / another multiplicity: different options
    out += [hdr.SOMEIPSDConfigOption(configs=(("a", "1"), ("b", None))), hdr.SOMEIPSDConfigOption(configs=(("b", None), ("a", "1"))),
            hdr.SOMEIPSDConfigOption(configs=(("x", None),)), hdr.SOMEIPSDConfigOption(configs=(("x", None), ("x", None)))]
    return out


def to_ref(o):
    if isinstance(o, hdr.SOMEIPSDUnknownOption):
        return ("unknown", o.type, bytes(o.payload))
    if isinstance(o, hdr.SOMEIPSDLoadBalancingOption):
        return ("loadbal", o.priority, o.weight)
    if isinstance(o, hdr.SOMEIPSDConfigOption):
        return ("config", tuple(o.configs))
    kinds = {hdr.IPv4EndpointOption: "v4endpoint", hdr.IPv6EndpointOption: "v6endpoint",
             hdr.IPv4MulticastOption: "v4multicast", hdr.IPv6MulticastOption: "v6multicast",
             hdr.IPv4SDEndpointOption: "v4sdendpoint", hdr.IPv6SDEndpointOption: "v6sdendpoint"}
    return (kinds[type(o)], o.address.packed, int(o.l4proto), o.port)


def naive_find(h, n):
    for i in range(len(h) - len(n) + 1):
        if tuple(h[i:i + len(n)]) == tuple(n):
            return i
    return None


# -- layer 1 ---------------------------------------------------------------------------------

def layer1(args):
    maxh, maxn = args
    viols = []
    n = 0
    lost_sharing = 0
    for hl in range(0, maxh + 1):
        for h in itertools.product("abc", repeat=hl):
            for nl in range(1, maxn + 1):
                for nd in itertools.product("abc", repeat=nl):
                    n += 1
                    try:
                        r = hdr._find(list(h), list(nd))
                    except Exception as e:  # noqa: BLE001
                        viols.append(("find", "raises", f"_find({h},{nd}) raised {type(e).__name__}", dict(layer=1, h=h, n=nd)))
                        continue
                    if r is None:
                        if naive_find(h, nd) is not None:
                            lost_sharing += 1
                        continue
                    if not isinstance(r, int) or r < 0 or tuple(h[r:r + nl]) != nd:
                        viols.append(("find", "wrong-index", f"_find({''.join(h)!r}, {''.join(nd)!r}) = {r}: not an occurrence",
                                      dict(layer=1, h=h, n=nd)))
    return dict(layer=1, n=n, lost_sharing=lost_sharing, viols=viols[:20], nviols=len(viols))


# -- layer 2 / 3 -------------------------------------------------------------------------------

def sigma(seed):
    pool = option_pool()
    k = seed % len(pool)
    rot = pool[k:] + pool[:k]
    return rot[0], rot[4], rot[8]


def runs_over(sig, maxlen):
    out = [()]
    for ln in range(1, maxlen + 1):
        out += list(itertools.product(sig, repeat=ln))
    return out


def entry_with(runs, i=0):
    r1, r2 = runs
    kinds = (T.OfferService, T.FindService, T.Subscribe, T.SubscribeAck)
    k = kinds[i % 4]
    last = 0x00010005 if k in (T.Subscribe, T.SubscribeAck) else 0x01020304
    return hdr.SOMEIPSDEntry(sd_type=k, service_id=0x1000 + i, instance_id=0x2000 + i, major_version=i + 1, ttl=0x010203,
                             minver_or_counter=last, options_1=tuple(r1), options_2=tuple(r2))


_OTHER = hdr.SOMEIPSDHeader(entries=(hdr.SOMEIPSDEntry(sd_type=T.FindService, service_id=0x4321, instance_id=1, major_version=1, ttl=9,
                                                       minver_or_counter=7),), flag_reboot=False).assign_option_indexes()


_OTHER2 = hdr.SOMEIPSDHeader(entries=(hdr.SOMEIPSDEntry(
    sd_type=T.OfferService, service_id=0x4322, instance_id=1, major_version=1, ttl=9, minver_or_counter=7,
    options_1=(hdr.SOMEIPSDLoadBalancingOption(7, 8),)),), flag_reboot=False)


def check_message(entries, flags, where):
    """entries: resolved library entries.  -> list of violation tuples"""
    reboot, unicast, unknown = flags
    out = []
    msg = hdr.SOMEIPSDHeader(entries=tuple(entries), flag_reboot=reboot, flag_unicast=unicast, flags_unknown=unknown)
    try:
        assigned = msg.assign_option_indexes()
        raw = assigned.build()
        data = bytes(raw)
        _OTHER.build()  # encoding another message must not change what build() returned for this one
        if bytes(raw) != data:
            out.append(("roundtrip", "encoding-changed-by-a-later-encode", "the object returned by build() changed when another "
                        "message was encoded", where))
        # a message that is prepared (indexes assigned) and serialised later - after another message was prepared, as
        # in a batch that assigns all messages first and then builds them - still encodes to the same bytes
        _OTHER2.assign_option_indexes()
        if bytes(assigned.build()) != data:
            out.append(("roundtrip", "prepared-message-changed-by-a-later-assign", "a message with assigned option indexes "
                        "encodes differently after another message was prepared", where))
    except Exception as e:  # noqa: BLE001
        return [("roundtrip", "build-raises", f"{type(e).__name__}: {e}", where)]
    try:
        ref, rest = refcodec.dec_sd(data)
    except refcodec.RefError as e:
        return [("layout", "reference-decoder-rejects", f"{e}", where)]
    if rest:
        out.append(("layout", "trailing-bytes", f"{len(rest)} bytes after the options array", where))
    if (ref["reboot"], ref["unicast"], ref["unknown_flags"]) != (reboot, unicast, unknown):
        out.append(("layout", "flags", f"flags on the wire {ref['flags']:#x}, expected {flags}", where))
    res = refcodec.resolve(ref)
    if len(res) != len(entries):
        out.append(("layout", "entry-count", f"{len(res)} entries on the wire, expected {len(entries)}", where))
    else:
        for j, ((raw, r1, r2), e) in enumerate(zip(res, entries)):
            want = (e.sd_type.value, e.service_id, e.instance_id, e.major_version, e.ttl, e.minver_or_counter)
            got = (raw["type"], raw["service"], raw["instance"], raw["major"], raw["ttl"], raw["last"])
            if got != want:
                out.append(("layout", "entry-fields", f"entry {j}: wire {got} expected {want}", where))
            if r1 != tuple(to_ref(o) for o in e.options_1) or r2 != tuple(to_ref(o) for o in e.options_2):
                out.append(("layout", "entry-options", f"entry {j}: decodes with runs ({len(r1)},{len(r2)}) options that are "
                            f"not its own ({len(e.options_1)},{len(e.options_2)})", where))
    try:
        back, rest2 = hdr.SOMEIPSDHeader.parse(data)
        back = back.resolve_options()
    except Exception as e:  # noqa: BLE001
        out.append(("roundtrip", "parse-raises", f"{type(e).__name__}: {e}", where))
        return out
    if rest2:
        out.append(("roundtrip", "rest", f"{len(rest2)} bytes left over", where))
    if (back.flag_reboot, back.flag_unicast, back.flags_unknown) != (reboot, unicast, unknown):
        out.append(("roundtrip", "flags", f"{back.flag_reboot, back.flag_unicast, back.flags_unknown}", where))
    if back.entries != tuple(entries):
        out.append(("roundtrip", "entries-differ", "parse().resolve_options() differs from the original entries", where))
    return out


FLAGS = [(r, u, k) for r in (False, True) for u in (False, True) for k in (0, 1, 0x20, 0x3F)]


def layer23(args):
    seed, maxrun, depth, full_depth = args
    sig = sigma(seed)
    runs = runs_over(sig, maxrun)
    viols = []
    seen = {(): None}
    frontier = [((), ())]  # (state tuple, path of (r1, r2))
    transitions = 0
    messages = 0
    for d in range(1, depth + 1):
        nxt = []
        for state, path in frontier:
            for r1 in runs:
                for r2 in runs:
                    lst = list(state)
                    e = entry_with((r1, r2), len(path))
                    try:
                        a = e.assign_option_index(lst)
                    except Exception as ex:  # noqa: BLE001
                        viols.append(("assign", "raises", f"{type(ex).__name__}", dict(layer=2, seed=seed, path=len(path))))
                        continue
                    transitions += 1
                    where = dict(layer=2, seed=seed, state=[sig.index(o) for o in state],
                                 runs=[[sig.index(o) for o in r1], [sig.index(o) for o in r2]])
                    if tuple(lst[:len(state)]) != state:
                        viols.append(("assign", "array-rewritten", "the shared array did not only grow by appending", where))
                    got1 = tuple(lst[a.option_index_1:a.option_index_1 + a.num_options_1])
                    got2 = tuple(lst[a.option_index_2:a.option_index_2 + a.num_options_2])
                    if got1 != tuple(r1) or got2 != tuple(r2):
                        viols.append(("assign", "slice-not-own-run", f"indexes ({a.option_index_1},{a.num_options_1}) "
                                      f"({a.option_index_2},{a.num_options_2}) do not select the entry's runs", where))
                    npath = path + ((r1, r2),)
                    if d <= full_depth or tuple(lst) not in seen:
                        # whole message for this path
                        ents = [entry_with(rr, i) for i, rr in enumerate(npath)]
                        fl = FLAGS[(messages + d) % len(FLAGS)]
                        messages += 1
                        for v in check_message(ents, fl, dict(layer=3, seed=seed, flags=fl, path=[
                                [[sig.index(o) for o in x] for x in rr] for rr in npath])):
                            viols.append(v)
                    if tuple(lst) not in seen:
                        seen[tuple(lst)] = None
                        nxt.append((tuple(lst), npath))
                    if len(viols) > 60:
                        return dict(layer=2, states=len(seen), transitions=transitions, messages=messages,
                                    viols=viols[:30], nviols=len(viols), depth=d)
        frontier = nxt
    return dict(layer=2, states=len(seen), transitions=transitions, messages=messages, viols=viols[:30],
                nviols=len(viols), depth=depth, alphabet=[type(o).__name__ for o in sig], runs=len(runs))


def layer3_fields(args):
    seed = args
    pool = option_pool()
    viols = []
    n = 0
    for k in (T.FindService, T.OfferService, T.Subscribe, T.SubscribeAck):
        lasts = (0, 1, 0xFFFFFFFE, 0xFFFFFFFF) if k in (T.FindService, T.OfferService) else tuple(
            (c << 16) | eg for c in (0, 1, 15) for eg in (0, 1, 0xFFFF))
        for sid, iid in itertools.product(B16, B16):
            for major, ttl, last in itertools.product((0, 1, 0xFF), (0, 1, 0xFFFF, 0x10000, 0xFFFFFE, 0xFFFFFF), lasts):
                e = hdr.SOMEIPSDEntry(sd_type=k, service_id=sid, instance_id=iid, major_version=major, ttl=ttl,
                                      minver_or_counter=last, options_1=(pool[(sid + n) % len(pool)],))
                n += 1
                fl = FLAGS[n % len(FLAGS)]
                for v in check_message([e], fl, dict(layer=3, fields=(k.value, sid, iid, major, ttl, last), flags=fl)):
                    viols.append(v)
                if len(viols) > 40:
                    return dict(layer=3, n=n, viols=viols[:30], nviols=len(viols))
    # messages that contain the same entry twice (A, B, A / A, A): every entry must survive, in order
    for a, b in itertools.product(range(0, len(pool), 3), repeat=2):
        ea = hdr.SOMEIPSDEntry(sd_type=T.OfferService, service_id=1, instance_id=2, major_version=3, ttl=2,
                               minver_or_counter=5, options_1=(pool[a],))
        eb = dataclasses.replace(ea, ttl=1, options_2=(pool[b],))
        for ents in ([ea, eb, ea], [ea, ea], [eb, ea, eb, ea]):
            n += 1
            for v in check_message(ents, FLAGS[n % len(FLAGS)], dict(layer=3, repeated_entries=len(ents), option_kinds=(a, b))):
                viols.append(v)
    # every option kind alone and in pairs in both runs
    for a, b in itertools.product(range(len(pool)), repeat=2):
        e = hdr.SOMEIPSDEntry(sd_type=T.OfferService, service_id=1, instance_id=2, major_version=3, ttl=4,
                              minver_or_counter=5, options_1=(pool[a],), options_2=(pool[b], pool[a]))
        n += 1
        for v in check_message([e], FLAGS[n % len(FLAGS)], dict(layer=3, option_kinds=(a, b))):
            viols.append(v)
    # configuration options: every item length 1..255 (a length byte is an arbitrary byte: 0x3d is '=', 0x00 the terminator),
    # as the only item, behind an item without a value, and in front of one
    base = dict(sd_type=T.OfferService, service_id=1, instance_id=2, major_version=3, ttl=4, minver_or_counter=5)
    for ln in range(1, 256):
        variants = [(("k" * ln, None),), (("key", None), ("x" * ln, None)), (("x" * ln, None), ("key", None)),
                    (("key", None), ("y", "v" * (ln - 2))) if ln >= 3 else (("key", ""), ("y", None))]
        for cfgs in variants:
            e = hdr.SOMEIPSDEntry(**base, options_1=(hdr.SOMEIPSDConfigOption(configs=cfgs),))
            n += 1
            for v in check_message([e], FLAGS[n % len(FLAGS)], dict(layer=3, config_item_length=ln, items=len(cfgs))):
                viols.append(v)
        if len(viols) > 40:
            break
    # options that differ in nothing but their kind (or their protocol): in one entry, in two entries of one message,
    # and in two successive messages
    twins = twin_pool()
    for a, b in itertools.permutations(range(len(twins)), 2):
        base = dict(sd_type=T.OfferService, service_id=1, instance_id=2, major_version=3, ttl=4, minver_or_counter=5)
        e1 = hdr.SOMEIPSDEntry(**base, options_1=(twins[a],), options_2=(twins[b],))
        e2 = hdr.SOMEIPSDEntry(**base, options_1=(twins[a], twins[b]))
        ea = hdr.SOMEIPSDEntry(**base, options_1=(twins[a],))
        eb = hdr.SOMEIPSDEntry(**dict(base, instance_id=3), options_2=(twins[b],))
        for ents in ([e1], [e2], [ea, eb], [ea], [eb]):
            n += 1
            for v in check_message(ents, FLAGS[n % len(FLAGS)], dict(layer=3, twin_options=(a, b), entries=len(ents))):
                viols.append(v)
        if len(viols) > 40:
            break
    return dict(layer=3, n=n, viols=viols[:30], nviols=len(viols))


# -- layer 4 ----------------------------------------------------------------------------------

def distinct_options(n):
    return [hdr.IPv4EndpointOption(ipaddress.IPv4Address("192.0.2.1"), hdr.L4Protocols.UDP, 1000 + i) for i in range(n)]


def try_unrepresentable(entries, where):
    """either an exception, or bytes that decode to exactly the original"""
    msg = hdr.SOMEIPSDHeader(entries=tuple(entries))
    try:
        data = bytes(msg.assign_option_indexes().build())
    except Exception:  # noqa: BLE001 - any error type is fine here
        return "raised", []
    out = []
    try:
        ref, rest = refcodec.dec_sd(data)
        res = refcodec.resolve(ref)
        ok = len(res) == len(entries) and not rest
        for (raw, r1, r2), e in zip(res, entries):
            ok = ok and r1 == tuple(to_ref(o) for o in e.options_1) and r2 == tuple(to_ref(o) for o in e.options_2)
            ok = ok and (raw["type"], raw["service"], raw["instance"], raw["major"], raw["ttl"], raw["last"]) == (
                e.sd_type.value, e.service_id, e.instance_id, e.major_version, e.ttl, e.minver_or_counter)
    except Exception:  # noqa: BLE001
        ok = False
    if ok:
        try:
            back, _ = hdr.SOMEIPSDHeader.parse(data)
            ok = back.resolve_options().entries == tuple(entries)
        except Exception:  # noqa: BLE001
            ok = False
    if not ok:
        out.append(("unrepresentable", where["disc"], f"{where['what']}: build() emitted bytes that decode to something else",
                    dict(layer=4, **where)))
    return "encoded", out


def layer4(args):
    viols = []
    n = 0
    outcomes = {}
    # run lengths around the 4-bit limit
    for n1, n2, repeated in itertools.product((0, 14, 15, 16, 17), (0, 14, 15, 16, 17), (False, True)):
        if n1 == 0 and n2 == 0:
            continue
        opts = distinct_options(40)
        r1 = tuple(opts[:n1]) if not repeated else tuple([opts[0]] * n1)
        r2 = tuple(opts[20:20 + n2]) if not repeated else tuple([opts[1]] * n2)
        e = hdr.SOMEIPSDEntry(sd_type=T.OfferService, service_id=1, instance_id=2, major_version=3, ttl=4,
                              minver_or_counter=5, options_1=r1, options_2=r2)
        over = []
        if n1 > 15:
            over.append(f"run1-{n1}")
        if n2 > 15:
            over.append(f"run2-{n2}")
        st, v = try_unrepresentable([e], dict(disc="run-count-" + ("+".join(over) or "fits"),
                                              what=f"runs of {n1} and {n2} options", n1=n1, n2=n2, repeated=repeated))
        n += 1
        outcomes[(st, bool(over))] = outcomes.get((st, bool(over)), 0) + 1
        viols += v
        if not over and st == "raised":
            viols.append(("representable", "raises", f"runs of {n1}/{n2} options fit but build raised",
                          dict(layer=4, n1=n1, n2=n2, repeated=repeated)))
    # every pair of run lengths 0..15 (all representable)
    for n1, n2 in itertools.product(range(0, 16), repeat=2):
        opts = distinct_options(40)
        e = hdr.SOMEIPSDEntry(sd_type=T.OfferService, service_id=1, instance_id=2, major_version=3, ttl=4,
                              minver_or_counter=5, options_1=tuple(opts[:n1]), options_2=tuple(opts[20:20 + n2]))
        st, v = try_unrepresentable([e], dict(disc="run-count-fits", what=f"runs of {n1} and {n2} options", n1=n1, n2=n2, repeated=False))
        n += 1
        outcomes[(st, False)] = outcomes.get((st, False), 0) + 1
        viols += v
        if st == "raised":
            viols.append(("representable", "raises", f"runs of {n1}/{n2} options fit but build raised",
                          dict(layer=4, n1=n1, n2=n2, repeated=False)))
    # over-long runs that can be *found* in the shared array (spelled by earlier, legal runs)
    for total, repeated in itertools.product((15, 16, 17), (False, True)):
        opts = distinct_options(40)
        pool = [opts[0]] * 40 if repeated else opts
        first = hdr.SOMEIPSDEntry(sd_type=T.OfferService, service_id=1, instance_id=2, major_version=3, ttl=4,
                                  minver_or_counter=5, options_1=tuple(pool[:8]), options_2=tuple(pool[8:total]))
        for where in (1, 2):
            kw = {"options_%d" % where: tuple(pool[:total])}
            second = hdr.SOMEIPSDEntry(sd_type=T.FindService, service_id=9, instance_id=8, major_version=7, ttl=6,
                                       minver_or_counter=5, **kw)
            st, v = try_unrepresentable([first, second], dict(
                disc=f"found-run{where}-{total}" if total > 15 else "found-run-fits",
                what=f"entry whose run {where} of {total} options is already spelled by two earlier runs", total=total,
                repeated=repeated, where=where))
            n += 1
            outcomes[(st, total > 15)] = outcomes.get((st, total > 15), 0) + 1
            viols += v
            if total <= 15 and st == "raised":
                viols.append(("representable", "raises", f"found run of {total} options fits but build raised",
                              dict(layer=4, total=total, repeated=repeated, where=where)))
    # number of distinct shared options around the 8-bit index limit
    for total in (254, 255, 256, 257, 258, 270, 271, 300, 511, 512):
        opts = distinct_options(total)
        ents = []
        for i in range(0, total, 15):
            ents.append(hdr.SOMEIPSDEntry(sd_type=T.OfferService, service_id=i, instance_id=2, major_version=3, ttl=4,
                                          minver_or_counter=5, options_1=tuple(opts[i:i + 15])))
        st, v = try_unrepresentable(ents, dict(disc=f"shared-options-{total}", what=f"{total} distinct shared options", total=total))
        n += 1
        outcomes[(st, total > 255)] = outcomes.get((st, total > 255), 0) + 1
        viols += v
        # the same with the options in the second runs, and alternating between the runs
        for where in ("run2", "alternating"):
            ents = []
            for j, i in enumerate(range(0, total, 15)):
                kw = {"options_2" if (where == "run2" or j % 2) else "options_1": tuple(opts[i:i + 15])}
                ents.append(hdr.SOMEIPSDEntry(sd_type=T.OfferService, service_id=i, instance_id=2, major_version=3, ttl=4,
                                              minver_or_counter=5, **kw))
            st, v = try_unrepresentable(ents, dict(disc=f"shared-options-{total}-{where}", what=f"{total} distinct shared options, "
                                                   f"{where}", total=total, where=where))
            n += 1
            outcomes[(st, total > 255)] = outcomes.get((st, total > 255), 0) + 1
            viols += v
    # numeric fields one past their width
    base = dict(sd_type=T.OfferService, service_id=1, instance_id=2, major_version=3, ttl=4, minver_or_counter=5)
    for field, val in (("service_id", 0x10000), ("instance_id", 0x10000), ("major_version", 0x100), ("ttl", 0x1000000),
                       ("minver_or_counter", 2 ** 32), ("service_id", -1)):
        e = hdr.SOMEIPSDEntry(**dict(base, **{field: val}))
        st, v = try_unrepresentable([e], dict(disc=f"field-{field}", what=f"{field}={val:#x}", field=field))
        n += 1
        outcomes[(st, True)] = outcomes.get((st, True), 0) + 1
        viols += v
    wide = [
        ("port", hdr.IPv4EndpointOption(ipaddress.IPv4Address("192.0.2.1"), hdr.L4Protocols.UDP, 65536)),
        ("l4proto", hdr.IPv4EndpointOption(ipaddress.IPv4Address("192.0.2.1"), 256, 1)),
        ("priority", hdr.SOMEIPSDLoadBalancingOption(priority=0x10000, weight=1)),
        ("weight", hdr.SOMEIPSDLoadBalancingOption(priority=1, weight=0x10000)),
        ("config-256", hdr.SOMEIPSDConfigOption(configs=(("k" * 256, None),))),
        ("config-kv-256", hdr.SOMEIPSDConfigOption(configs=(("k" * 200, "v" * 55),))),
        ("unknown-type", hdr.SOMEIPSDUnknownOption(type=0x100, payload=b"\x00")),
        ("unknown-payload-64k", hdr.SOMEIPSDUnknownOption(type=0x70, payload=bytes(65536))),
    ]
    for name, opt in wide:
        e = hdr.SOMEIPSDEntry(**base, options_1=(opt,))
        st, v = try_unrepresentable([e], dict(disc=f"option-{name}", what=f"option field {name} beyond its width", field=name))
        n += 1
        outcomes[(st, True)] = outcomes.get((st, True), 0) + 1
        viols += v
    return dict(layer=4, n=n, viols=viols, nviols=len(viols),
                outcomes={f"{k[0]} (unrepresentable={k[1]})": v for k, v in outcomes.items()})


# -- layer 5 ----------------------------------------------------------------------------------

def layer5(args):
    seed = args
    sig = sigma(seed)
    runs = runs_over(sig, 2)
    loop = VLoop().install()
    viols = []
    n = 0
    try:
        a = make_sd(loop)
        b = make_sd(loop, sockname=("192.0.2.2", 30490))
        got = []
        b.sd_message_received = lambda sdhdr, addr, multicast: got.append((sdhdr, addr, multicast))
        for (r1, r2), (r3, r4) in itertools.product(itertools.product(runs, runs), repeat=2):
            if (n % 7) and len(r1) + len(r2) + len(r3) + len(r4) > 5:
                n += 1
                continue
            ents = [entry_with((r1, r2), 0), entry_with((r3, r4), 1)]
            a.transport.sent.clear()
            got.clear()
            n += 1
            try:
                a.send_sd(ents, remote=("192.0.2.2", 30490))
                (_, _, data, addr), = a.transport.sent
                b.datagram_received(data, ("192.0.2.1", 30490), False)
            except Exception as e:  # noqa: BLE001
                viols.append(("pipeline", "raises", f"{type(e).__name__}: {e}", dict(layer=5, seed=seed, n=n)))
                continue
            if len(got) != 1 or got[0][0].entries != tuple(ents):
                viols.append(("pipeline", "entries-differ", "entries received through send_sd -> datagram_received differ",
                              dict(layer=5, seed=seed, n=n)))
            if len(viols) > 20:
                break
    finally:
        loop.dispose()
    return dict(layer=5, n=n, viols=viols[:20], nviols=len(viols))


def _run(job):
    kind, args = job
    return {"l1": layer1, "l23": layer23, "l3f": layer3_fields, "l4": layer4, "l5": layer5}[kind](args)


def check(ctx):
    jobs = [("l1", ctx.pick((6, 4), (8, 5))),
            ("l23", (ctx.seed, 2, ctx.pick(2, 3), 2)), ("l23", (ctx.seed + 5, 1, 3, 3)), ("l23", (ctx.seed + 2, 2, 2, 2)),
            ("l3f", ctx.seed), ("l4", None), ("l5", ctx.seed)]
    if ctx.thorough:
        # runs up to 3 options (40 runs, 1600 entries per state) to depth 2; more alphabets at depth 3
        jobs += [("l23", (ctx.seed + k, 3, 2, 1)) for k in (1, 6)] + [("l23", (ctx.seed + k, 2, 3, 2)) for k in (3, 4, 7, 8, 9, 10, 11)]
    out = core.pmap(_run, jobs, 1)
    viols = []
    for o in out:
        for clause, disc, detail, case in o.pop("viols"):
            viols.append(core.Violation(ctx.prop, clause, disc, case, detail=detail))
    states = sum(o.get("states", 0) for o in out)
    transitions = sum(o.get("transitions", 0) for o in out)
    cases = sum(o.get("n", 0) + o.get("messages", 0) for o in out)
    samples = [
        dict(layer=2, state="[a, b]", entry_runs="run1=(b,), run2=(a, b)", expect="indexes (1,1) (0,2), array unchanged"),
        dict(layer=4, what="one entry, run 2 holds 16 options", expect="exception, or bytes decoding to 16 options in run 2"),
        dict(layer=1, haystack="abcab", needle="cab", expect=2),
    ]
    cov = dict(
        states=max(states, 1), transitions=max(transitions, 1), traces_validated_against_impl=transitions + cases,
        samples=samples, layers=out, evaluations=cases + transitions, exhaustive=True,
        note="states = distinct shared option arrays reached by real assign_option_index calls; transitions = entry "
             "assignments; plus whole-message cases judged by the independent decoder",
    )
    return core.finish(ctx, "model_checking", cov, viols, [
        "sharing of option runs is not required by the property: a missed sharing opportunity is counted, not reported",
        "alphabet of three options per search (kinds rotate with the seed over all 12 option kinds of the pool)",
    ])


def replay(ctx, body):
    c = body["case"]
    layer = c.get("layer")
    if layer == 4 and "n1" in c:
        opts = distinct_options(40)
        r1 = tuple(opts[:c["n1"]]) if not c["repeated"] else tuple([opts[0]] * c["n1"])
        r2 = tuple(opts[20:20 + c["n2"]]) if not c["repeated"] else tuple([opts[1]] * c["n2"])
        e = hdr.SOMEIPSDEntry(sd_type=T.OfferService, service_id=1, instance_id=2, major_version=3, ttl=4,
                              minver_or_counter=5, options_1=r1, options_2=r2)
        st, v = try_unrepresentable([e], dict(disc="replay", what=f"runs of {c['n1']} and {c['n2']} options"))
        print("outcome:", st)
        for x in v:
            print("FAILS:", x[:3])
        return 1 if v else 0
    if layer == 1:
        r = hdr._find(list(c["h"]), list(c["n"]))
        print("_find ->", r, "naive ->", naive_find(c["h"], c["n"]))
        return 1 if (r is not None and tuple(c["h"][r:r + len(c["n"])]) != tuple(c["n"])) else 0
    if layer in (2, 3) and "path" in c and isinstance(c["path"], (list, tuple)):
        sig = sigma(c["seed"])
        npath = [tuple(tuple(sig[i] for i in x) for x in rr) for rr in c["path"]]
        ents = [entry_with(rr, i) for i, rr in enumerate(npath)]
        fl = tuple(c.get("flags", (False, True, 0)))
        v = check_message(ents, (bool(fl[0]), bool(fl[1]), fl[2]), {})
        for x in v:
            print("FAILS:", x[:3])
        return 1 if v else 0
    print("re-running the whole layer for this case")
    o = _run(({1: "l1", 2: "l23", 3: "l3f", 4: "l4", 5: "l5"}[layer], {4: None, 5: ctx.seed, 3: ctx.seed}.get(layer)))
    for x in o["viols"][:5]:
        print("FAILS:", x[:3])
    return 1 if o["nviols"] else 0
