"""Single-preemption interleavings at bytecode granularity, without threads.

Two operations A and B that a program may run in two threads (the library expects sends from application
threads next to the loop's thread).  Under the interpreter lock a thread switch happens between two bytecode
instructions; what the other thread does in the meantime is, for operations that take no locks and keep no
per-thread state, the same as running B to completion at that point.  explore() runs A once per bytecode
boundary k inside the library's own code (frames whose file lies under `prefix`), executes B at boundary k from
inside the trace callback (tracing is off while a trace callback runs), lets A finish, and hands both results to
the caller.  This is exhaustive for one preemption of A by a complete B; it does not cover B being preempted in
turn, nor switches inside C functions (which the interpreter lock makes atomic).

Not applicable to operations that take a lock (B would wait for A on the same thread)."""
from __future__ import annotations

import sys


def _tracer(prefix, on_opcode):
    def local(frame, event, arg):
        if event == "opcode":
            on_opcode()
        return local

    def glob(frame, event, arg):
        if not frame.f_code.co_filename.startswith(prefix):
            return None
        frame.f_trace_opcodes = True
        return local

    return glob


def count_boundaries(fn_a, prefix):
    n = [0]

    def on_opcode():
        n[0] += 1

    old = sys.gettrace()
    # CPython 3.12 instruments a code object for opcode events when tracing is switched on after a frame of that code
    # asked for them: one traced warm-up run, then tracing is switched on again for the run that is counted
    for _ in range(2):
        n[0] = 0
        sys.settrace(_tracer(prefix, on_opcode))
        try:
            fn_a()
        finally:
            sys.settrace(old)
    return n[0]


def explore(fn_a, fn_b, prefix, limit=20000):
    """-> (boundaries, [(k, result of A or exception, result of B or exception)] for every k)"""
    total = count_boundaries(fn_a, prefix)
    if total > limit:
        raise RuntimeError(f"{total} bytecode boundaries, limit {limit}")
    out = []
    for k in range(total):
        n = [0]
        rb = []

        def on_opcode():
            if n[0] == k:
                try:
                    rb.append(("ok", fn_b()))
                except Exception as e:  # noqa: BLE001
                    rb.append(("raised", f"{type(e).__name__}: {e}"))
            n[0] += 1

        old = sys.gettrace()
        sys.settrace(_tracer(prefix, on_opcode))
        try:
            try:
                ra = ("ok", fn_a())
            except Exception as e:  # noqa: BLE001
                ra = ("raised", f"{type(e).__name__}: {e}")
        finally:
            sys.settrace(old)
        out.append((k, ra, rb[0] if rb else ("not-run", None)))
    return total, out
