#!/bin/sh
# tools/mutant.sh <check id> <sed expression> <file under /repo/src/someip>  : apply, run quick check, revert
ID="$1"; EXPR="$2"; FILE="${3:-sd.py}"
cd /repo && sed -i "$EXPR" "src/someip/$FILE" && git diff --stat | head -2
cd /verif && ./check "$ID" 2>&1 | grep -v Warning | cut -c1-260 | head -${LINES_OUT:-6}
echo "exit=$?"
git -C /repo checkout -- . 
