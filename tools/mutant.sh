#!/bin/sh
# tools/mutant.sh <check id> <sed expression> [file under /repo/src/someip] : apply, run quick check, ALWAYS revert
ID="$1"; EXPR="$2"; FILE="${3:-sd.py}"
OUT=$(mktemp)
trap 'git -C /repo checkout -- . ; rm -f "$OUT"' EXIT INT TERM PIPE
cd /repo && sed -i "$EXPR" "src/someip/$FILE"
git -C /repo diff --stat | head -1 > "$OUT"
cd /verif && ./check "$ID" >> "$OUT" 2>&1
echo "exit=$?" >> "$OUT"
git -C /repo checkout -- .
grep -v Warning "$OUT" | cut -c1-260 | head -${LINES_OUT:-6} || true
