#!/bin/sh
# tools/seed_matrix.sh [checks...] : run every quick check against every seeded patch (scratch worktrees, VERIF_REPO)
HERE="$(cd "$(dirname "$0")/.." && pwd)"
CHECKS="${*:-C01 C02 C03 C04 C05 C06 C07 C08 C09 C10 C11 C12 C13 C14 C15 C16 C17 C18 C19 C20}"
for D in "$HERE"/seeded/*/; do
  N=$(basename "$D"); W="/tmp/mx-$N"
  git -C /repo worktree remove --force "$W" 2>/dev/null
  git -C /repo worktree add -q --detach "$W" HEAD || continue
  git -C "$W" apply "$D/patch.diff" || { echo "$N: PATCH DOES NOT APPLY"; git -C /repo worktree remove --force "$W"; continue; }
  ROW=""
  for C in $CHECKS; do
    ( cd "$HERE" && VERIF_REPO="$W" ./check "$C" > "/tmp/mx-$N.out" 2>&1 ); RC=$?
    if grep -q "^VIOLATION" "/tmp/mx-$N.out"; then ROW="$ROW $C"; elif [ $RC -ne 0 ]; then ROW="$ROW $C(exit$RC)"; fi
  done
  echo "$N :$ROW"
  rm -f "/tmp/mx-$N.out"
  git -C /repo worktree remove --force "$W"
done
