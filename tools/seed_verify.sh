#!/bin/sh
# tools/seed_verify.sh [pattern]  (VERIFY_ONLY="C05 C08" restricts the run to claims about those checks): re-confirm /verif/seeded/README.md - for every kept seeded change apply its patch
# to a scratch worktree of /repo HEAD and run the quick tier of every check named in meta.json "detected_by";
# each must exit 1 with a VIOLATION line.  Prints one line per (change, check); exit 1 if any detection was lost.
# The scratch worktree lives under /tmp and is removed at the end; /repo itself is never touched.
PAT="${1:-*}"
W=/tmp/seed-verify-wt
cd /verif || exit 2
git -C /repo worktree remove --force "$W" 2>/dev/null
git -C /repo worktree add -q --detach "$W" HEAD || exit 2
trap 'git -C /repo worktree remove --force "$W" 2>/dev/null' EXIT INT TERM
bad=0
for d in seeded/$PAT/; do
  [ -f "$d/patch.diff" ] || continue
  name=$(basename "$d")
  git -C "$W" checkout -q -- . && git -C "$W" apply "$PWD/$d/patch.diff" || { echo "$name: PATCH DOES NOT APPLY"; bad=1; continue; }
  for c in $(/opt/veriftools/pyvenv/bin/python -c "import json,sys; print(' '.join(json.load(open('$d/meta.json'))['detected_by']))"); do
    if [ -n "${VERIFY_ONLY:-}" ]; then case " $VERIFY_ONLY " in *" $c "*) ;; *) continue ;; esac; fi
    VERIF_REPO="$W" ./check "$c" > /tmp/seed-verify.out 2>&1; rc=$?
    if [ $rc -eq 1 ] && grep -q "^VIOLATION property=$c " /tmp/seed-verify.out; then echo "$name: $c detects"; else echo "$name: $c MISSES (exit $rc)"; bad=1; fi
  done
done
rm -f /tmp/seed-verify.out
exit $bad
