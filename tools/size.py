"""ad-hoc sizing of the E1 searches of a property: tools/size.sh C09 [depth]"""
import importlib
import logging
import sys
import time

logging.disable(50)
import warnings
warnings.simplefilter('ignore')
from pvmc import core, e1  # noqa: E402

prop = sys.argv[1]
mod = importlib.import_module(f"pvmc.props.{prop.lower()}")
ctx = core.Ctx(prop, sys.argv[3] if len(sys.argv) > 3 else "quick", 0)
only = sys.argv[4] if len(sys.argv) > 4 else None
for name, cfg, depth in mod.configs(ctx):
    if only and only not in name:
        continue
    t = time.time()
    d = int(sys.argv[2]) if len(sys.argv) > 2 and sys.argv[2] != "-" else depth
    res, vs, det = e1.search(ctx, mod.Sys, cfg, d, name)
    core.close_pool()
    print(name, "depth", d, det["levels"], "states", det["states"], "trans", det["transitions"], "viol", len(vs),
          "closure", det["closure"], round(time.time() - t, 1), "s")
    sigs = {}
    for v in vs:
        sigs.setdefault(v.signature, v)
    for sgn, v in sigs.items():
        print("   ", sgn, v.detail[:400])
        print("      hist:", v.case["history"])
