#!/bin/sh
cd "$(dirname "$0")/.." && PYTHONHASHSEED=0 PYTHONDONTWRITEBYTECODE=1 PYTHONPATH="${VERIF_REPO:-/repo}/src:$PWD" exec /venv/bin/python tools/size.py "$@"
