#!/opt/veriftools/pyvenv/bin/python
"""tools/seed_keep.py <ID> <name> <detected: yes|no|after-strengthening> <by checks, comma separated> <needs...>
copies /tmp/wt-<ID>/MUTANT into /verif/seeded/<name>/ and writes meta.json"""
import json, os, shutil, sys
pid, name, detected, by = sys.argv[1:5]
needs = " ".join(sys.argv[5:])
src = f"/tmp/wt-{pid}/MUTANT"
dst = f"/verif/seeded/{name}"
os.makedirs(dst, exist_ok=True)
for f in ("patch.diff", "demo_test.py", "notes.md"):
    if os.path.exists(os.path.join(src, f)):
        shutil.copy(os.path.join(src, f), os.path.join(dst, f))
meta = dict(
    property=pid, breaks=pid, origin="independent sub-agent given only the property text and a scratch worktree",
    needs_to_manifest=needs,
    confirmed=["patch applies to /repo HEAD", "existing suite: 123 passed, 2 skipped with the patch",
               "demo_test.py fails with the patch and passes without it"],
    ran=f"tools/seed_eval.sh {pid}  (quick check with VERIF_SEED=0 and 3 against the patched scratch worktree)",
    detected=detected, detected_by=[x for x in by.split(",") if x],
)
json.dump(meta, open(os.path.join(dst, "meta.json"), "w"), indent=1)
print("kept", dst)
