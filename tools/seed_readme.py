#!/opt/veriftools/pyvenv/bin/python
import glob, json, os
rows = []
for d in sorted(glob.glob("/verif/seeded/*/meta.json")):
    m = json.load(open(d))
    name = os.path.basename(os.path.dirname(d))
    rows.append((name, m))
out = ["# Seeded changes", "",
       "Each directory holds a change to afflux/pysomeip that breaks one property while the repository's 123 tests",
       "still pass: `patch.diff`, the demonstration `demo_test.py` (fails with the change, passes without), the author's",
       "`notes.md` and `meta.json`. The changes of the first round were written by independent sub-agents that were",
       "given only the property text and a scratch worktree - nothing from /verif. Every one was re-confirmed here",
       "(`tools/seed_eval.sh`): patch applies to /repo HEAD, suite passes with it, demo fails with / passes without,",
       "then the property's quick check was run with two seeds against the patched tree.", "",
       "| directory | property | needs to manifest | reported by | detected |", "|---|---|---|---|---|"]
for name, m in rows:
    out.append(f"| {name} | {m['property']} | {m['needs_to_manifest']} | {', '.join(m['detected_by'])} | {m['detected']} |")
out += ["", "`after-strengthening` = the property's own check missed the change at first (another property's check",
        "caught it); the check was extended and now reports it. What was extended is in the 'needs to manifest' column",
        "and in DESIGN.md section 8.2."]
open("/verif/seeded/README.md", "w").write("\n".join(out) + "\n")
print(len(rows), "seeded changes")
