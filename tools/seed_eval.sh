#!/bin/sh
# tools/seed_eval.sh <ID> [<name>]  : evaluate the sub-agent result in /tmp/wt-<ID>/MUTANT
#  1. patch applies to a fresh scratch worktree of /repo HEAD; existing suite passes with it
#  2. demo fails with the patch, passes without
#  3. the property's quick check (two seeds) on /repo with the patch applied; always reverted
# results are printed; nothing is written to /verif (copy by hand once confirmed)
ID="$1"; SRC="/tmp/wt-$ID/MUTANT"; W="/tmp/eval-$ID"
set -u
[ -f "$SRC/patch.diff" ] || { echo "no patch.diff"; exit 2; }
git -C /repo worktree remove --force "$W" 2>/dev/null
git -C /repo worktree add -q --detach "$W" HEAD || exit 2
trap 'git -C /repo worktree remove --force "$W" 2>/dev/null; git -C /repo checkout -- . 2>/dev/null' EXIT INT TERM
cp -r "$SRC" "$W/MUTANT"
cd "$W" || exit 2
echo "== demo WITHOUT patch (must pass)"
PYTHONPATH="$W/src" /venv/bin/python -m pytest -q -p no:cacheprovider --timeout=300 MUTANT/demo_test.py 2>&1 | tail -2
git apply MUTANT/patch.diff || { echo "PATCH DOES NOT APPLY"; exit 2; }
echo "== demo WITH patch (must fail)"
PYTHONPATH="$W/src" /venv/bin/python -m pytest -q -p no:cacheprovider --timeout=300 MUTANT/demo_test.py 2>&1 | tail -2
echo "== existing suite WITH patch (must pass)"
PYTHONPATH="$W/src" /venv/bin/python -m pytest -q -p no:cacheprovider --timeout=900 tests 2>&1 | tail -2
echo "== /verif quick check on /repo with the patch (seeds 0 and 3)"
git -C /repo apply "$SRC/patch.diff" || { echo "PATCH DOES NOT APPLY TO /repo"; exit 2; }
for S in 0 3; do
  ( cd /verif && VERIF_SEED=$S ./check "$ID" 2>&1 | grep -v Warning | cut -c1-300 | head -6; echo "check exit=$?" )
done
git -C /repo checkout -- .
git -C /repo status --short
