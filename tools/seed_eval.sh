#!/bin/sh
# tools/seed_eval.sh <ID> [<name>]  : evaluate the sub-agent result in /tmp/wt-<ID>/MUTANT
#  1. patch applies to a fresh scratch worktree of /repo HEAD; existing suite passes with it
#  2. demo fails with the patch, passes without
#  3. the property's quick check (two seeds) against the patched scratch worktree (VERIF_REPO)
# results are printed; nothing is written to /verif (copy by hand once confirmed)
ID="$1"; SRC="/tmp/wt-$ID/MUTANT"; W="/tmp/eval-$ID"
set -u
[ -f "$SRC/patch.diff" ] || { echo "no patch.diff"; exit 2; }
git -C /repo worktree remove --force "$W" 2>/dev/null
git -C /repo worktree add -q --detach "$W" HEAD || exit 2
trap 'git -C /repo worktree remove --force "$W" 2>/dev/null; git -C /repo checkout -- . 2>/dev/null' EXIT INT TERM
cp -r "$SRC" "$W/MUTANT"
cd "$W" || exit 2
echo "== demo WITHOUT patch (must pass)"
PYTHONPATH="$W/src" /venv/bin/python -m pytest -q -p no:cacheprovider --timeout=300 MUTANT/demo_test.py 2>&1 | tail -2
git apply MUTANT/patch.diff || { echo "PATCH DOES NOT APPLY"; exit 2; }
echo "== demo WITH patch (must fail)"
PYTHONPATH="$W/src" /venv/bin/python -m pytest -q -p no:cacheprovider --timeout=300 MUTANT/demo_test.py 2>&1 | tail -2
echo "== existing suite WITH patch (must pass)"
PYTHONPATH="$W/src" /venv/bin/python -m pytest -q -p no:cacheprovider --timeout=900 tests 2>&1 | tail -2
echo "== /verif quick check against the patched scratch worktree (VERIF_REPO=$W; seeds 0 and 3)"
for S in 0 3; do
  ( cd /verif && VERIF_REPO="$W" VERIF_SEED=$S ./check "${2:-$ID}" > "/tmp/eval-$ID.out" 2>&1; echo "check exit=$?"; grep -v Warning "/tmp/eval-$ID.out" | cut -c1-300 | head -6 )
done
rm -f "/tmp/eval-$ID.out"
