#!/opt/veriftools/pyvenv/bin/python
"""regenerates /verif/MANIFEST.json from pvmc/registry.py and validates it"""
import importlib.util
import json
import os
import sys

HERE = os.path.dirname(os.path.dirname(os.path.abspath(__file__)))
spec = importlib.util.spec_from_file_location("registry", os.path.join(HERE, "pvmc", "registry.py"))
reg = importlib.util.module_from_spec(spec)
spec.loader.exec_module(reg)

ids = [json.loads(line)["id"] for line in open(os.path.join(HERE, "properties.jsonl"))]
checks = []
na = []
for pid in ids:
    r = reg.CHECKS.get(pid)
    if r is None or not os.path.exists(os.path.join(HERE, "pvmc", "props", pid.lower() + ".py")):
        na.append(dict(property_id=pid, reason=reg.NOT_YET.get(pid, "check not built yet (work in progress)")))
        continue
    checks.append(dict(
        property_id=pid,
        quick_cmd=f"./check {pid} --tier quick",
        thorough_cmd=f"./check {pid} --tier thorough",
        evidence_file=f"/verif/evidence/{pid}.json",
        replay_cmd_template=f"./check {pid} --replay {{path}}",
        engine=r["engine"],
        level_claimed=dict(category=r["level"], text=r["text"], design_ref=r["design_ref"]),
        level_note=r["note"],
        technique=r["technique"],
    ))
m = dict(
    version=1,
    setup_cmd="./check --selftest",
    hooks=dict(
        guard="PYSOMEIP_VERIF",
        enable="no source hooks exist: every seam (event loop, someip.sd.random, transports, listeners, "
               "getaddrinfo) is reachable from outside; checks import ${VERIF_REPO:-/repo}/src directly",
        baseline_off_cmd="cd /repo && /venv/bin/python -m pytest -ra -q -p no:cacheprovider --timeout=900 "
                         "--continue-on-collection-errors",
        source_commits=[],
        add_only=True,
    ),
    engines=reg.ENGINES,
    checks=checks,
    notes=reg.NOTES,
    not_applicable=na,
)
import jsonschema  # noqa: E402

jsonschema.validate(m, json.load(open("/root/.vp/MANIFEST.schema.json")))
with open(os.path.join(HERE, "MANIFEST.json"), "w") as f:
    json.dump(m, f, indent=1)
    f.write("\n")
print(f"MANIFEST.json: {len(checks)} checks, {len(na)} not_applicable")
if "--evidence" in sys.argv:
    sch = json.load(open("/root/.vp/EVIDENCE.schema.json"))
    for c in checks:
        p = c["evidence_file"]
        if os.path.exists(p):
            jsonschema.validate(json.load(open(p)), sch)
            print("evidence ok:", p)
        else:
            print("evidence MISSING:", p)
